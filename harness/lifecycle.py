"""Shared machinery of the C09 / C12 drivers (spec/Lifecycle.tla, spec/LifecycleTrace.tla).

* rendering of abstract declarations / actions into pyscript source and harness operations,
* execution of an action list on the real integration (both subsystems) with an observation
  after every step (at quiescence),
* validation of the recordings by TLC (LifecycleTrace reuses Lifecycle's actions: obs = Proj'),
  classification of rejections by the named deviation flags that explain them,
* generators: TLC-simulated behaviours (R) and random longer sequences (T).

Python drives and records; the verdicts are TLC's.
"""
import copy
import gc
import itertools
import json
import os
import random
import time

from harness import tlc
from harness.common import MachineryFailure, run_workers

CTXNAME = {"c1": "file.fa", "c2": "apps.ab", "c3": "jupyter_0", "c4": "modules.mx"}
FILE = {"c1": "fa.py", "c2": "apps/ab/__init__.py"}
MODFILE = "modules/mx.py"          # c4: a module, loaded only when some context executes "import mx"
ALLCTX = ("c1", "c2", "c3", "c4")
SVC = ("s1", "s2", "S3")           # "S3": a name with an upper-case letter (HA folds it, the script does not)
EV = ("e1", "e2")
ENT = ("a", "b", "c")
ALL_ACTS = ["define", "del", "rebind", "push", "pop", "clear", "reload", "close", "unload", "boot", "import", "fail", "tick",
            "fire", "set", "call", "out"]      # "fail" is not an action: it allows contents whose top level raises;
#                                                "tick" neither: a script statement may be followed by an occurrence
#                                                produced by the same script before it yields to the event loop
TICK_ACTS = ("define", "del", "rebind", "push", "pop", "clear")
ALL_FLAGS = ["legacy-stop-before-first-run-leaks", "service-handler-not-repointed", "notify-del-returns-early", "dm-delayed-start-ignores-drop",
             "dm-start-order-arbitrary", "dm-service-owner-is-evaluator-name", "dm-service-multi-arg-rejected",
             "session-import-module-not-started", "service-bookkeeping-keyed-by-spelling", "dm-stop-only-scheduled"]
# deviations repaired in the code under test: their generator masks are lifted (a rejection they explain is a
# VIOLATION anyway: known_findings.jsonl lists them as fixed)
LIFTED_MASKS = {"dm-service-multi-arg-rejected"}
DM_ONLY = {f for f in ALL_FLAGS if f.startswith("dm-")}
WHAT = {
    "service-handler-not-repointed": "two live functions declare one service: after the newer one is deleted the count drops "
                                     "but HA keeps the deleted function's handler - the service runs dead code and the live "
                                     "declaration is never called",
    "notify-del-returns-early": "State.notify_del returns at the first name whose entity was already unsubscribed: the other "
                                "watched entities keep a dead queue (which ones depends on set order = PYTHONHASHSEED)",
    "dm-delayed-start-ignores-drop": "dm: a definition that is overwritten or deleted while its file is still loading is started "
                                     "anyway with the context: the dead definition's triggers run (and its startup trigger)",
    "dm-start-order-arbitrary": "dm: delayed decorator managers are started in set order: with two definitions of one service in "
                                "one file the service may call the older definition",
    "dm-service-owner-is-evaluator-name": "dm: @service of a closure created inside a running function registers under the "
                                          "evaluator's name: a re-registration by the same context is refused as a foreign "
                                          "take-over (the closure stays inert), or later top-level declarations are refused",
    "dm-service-multi-arg-rejected": "dm: @service with several names as arguments (documented) is refused: nothing of the "
                                     "function is registered",
    "legacy-stop-before-first-run-leaks": "legacy: a function stopped before its trigger task ran its first step (deleted, "
                                          "redefined or its context closed right after the start, without quiescence in "
                                          "between): TrigInfo.stop finds nothing to unsubscribe, then the task subscribes and "
                                          "is cancelled by the reaper - its State.notify queues and its event queue / bus "
                                          "listener stay (no run: the task is gone)",
    "session-import-module-not-started": "a module imported by a Jupyter cell is loaded while the session's auto-start is "
                                         "switched off for the cell: its decorated functions stay stopped (dm: no service, "
                                         "no trigger; legacy: services only) until an unrelated pyscript.reload starts them",
    "service-bookkeeping-keyed-by-spelling": "reference counts and owners of services are kept per spelling of the name while "
                                             "HA folds service names: two live declarations that spell one name differently "
                                             "(pyscript.s1 / pyscript.S1) do not share a count - deleting or redefining one "
                                             "unregisters the service the other still declares - and a second context takes over "
                                             "a name another context owns",
    "dm-stop-only-scheduled": "dm: when the last reference of a function goes away its stop is only scheduled: until the event "
                              "loop runs it the function keeps its listeners, queues and services - an occurrence the same "
                              "script produces right behind the deleting statement (event.fire, a call of its service) runs "
                              "the deleted function",
    "unexplained": "recording is not a behaviour of the lifecycle model under any combination of the named deviations",
}
NODECL = {"st": [], "ev": [], "tt": [], "svc": [], "resp": "none", "sf": "stack", "alt": False, "dup": []}


def spell(s, alt):
    """The service name as the script writes it; alt: the other spelling of the same name (first letter's case swapped)."""
    return s[0].swapcase() + s[1:] if alt else s


# ------------------------------------------------------------------------------------------------
# rendering
def canon(d):
    """Canonical string of a flat dict of parameters: 'k=v,...' sorted by key, '-' when empty."""
    return ",".join("%s=%s" % (k, d[k]) for k in sorted(d)) or "-"


def parse_kv(s):
    if s in ("-", ""):
        return {}
    return dict(p.split("=", 1) for p in s.split(","))


def decorators(d):
    out = []
    # a declaration is a MULTISET of names: the names in d["dup"] are listed twice (twice in one @service, or two
    # stacked @service of the same name)
    svc = [spell(x, d.get("alt")) for x in sorted(list(d["svc"]) + list(d.get("dup", ())))]
    if svc:
        if d["sf"] == "args":
            names = [", ".join('"pyscript.%s"' % s for s in svc)]
        else:
            names = ['"pyscript.%s"' % s for s in svc]
        kw = "" if d["resp"] == "none" else ', supports_response="%s"' % d["resp"]       # "none" is the default
        out += ["@service(%s%s)" % (n, kw) for n in names]
    st = sorted(d["st"])
    if st:
        if len(st) == 1 and "." not in st[0]:
            out.append('@state_trigger("pyscript.%s")' % st[0])           # any change of the entity
        else:                                                             # always true: runs at every watched change
            out.append('@state_trigger("%s")' % " or ".join("pyscript.%s != 'zz'" % n for n in st))
    out += ['@event_trigger("%s")' % e for e in sorted(d["ev"])]
    tt = sorted(d["tt"])
    if tt:
        out.append("@time_trigger(%s)" % ", ".join('"%s"' % ("period(now + 5h, 5h)" if t == "timer" else t) for t in tt))
    return out


def func_src(name, gen, d, indent=""):
    lines = decorators(d) + ["def %s(**kw):" % name, "    r = vf.rc(%d, kw)" % gen, '    return {"g": %d, "data": r}' % gen]
    return "".join(indent + ln + "\n" for ln in lines)


def prelude(c):
    src = ("L = []\nD = {}\n\n"
           '@event_trigger("vfspawn_%s")\n'
           "def vf_spawn(where=None, **kw):\n"
           '    if where == "L":\n'
           "        L.append(vf_mk())\n"
           "    else:\n"
           '        D["k"] = vf_mk()\n\n') % c
    # statements executed inside a running (triggered) function: the harness defines vf_tick() and fires the event
    src += ('@event_trigger("vfrun_%s")\n'
            "def vf_run(**kw):\n"
            "    vf_tick()\n\n") % c
    if c != "c4":           # "import mx" executed inside a running function
        src += ('@event_trigger("vfimp_%s")\n'
                "def vf_imp(**kw):\n"
                "    import mx\n\n") % c
    return src


FAIL_SRC = "\nraise RuntimeError('vf: the top level of this file fails here')\n"
HELPERS = ("vf_spawn", "vf_imp", "vf_run")


def file_src(c, defs, g0, fail=False, im=False):
    """im: the file begins with "import mx" (before its definitions); fail: its top level raises after them."""
    return (prelude(c) + ("import mx\n\n" if im else "")
            + "\n".join(func_src(df["n"], g0 + i, df["d"]) for i, df in enumerate(defs)) + (FAIL_SRC if fail else ""))


def norm_decl(d):
    d = d if "alt" in d else dict(d, alt=False)
    return d if "dup" in d else dict(d, dup=[])


def norm_act(a):
    """Fill in the optional fields of an action (older replay files / generators do not write them)."""
    a = dict(a)
    if "d" in a:
        a["d"] = norm_decl(a["d"])
    for k in ("defs", "mdefs", "d1", "d2"):
        if k in a:
            a[k] = [dict(df, d=norm_decl(df["d"])) for df in a[k]]
    if a["a"] == "reload":
        for k, v in (("fail", False), ("im", False), ("mdefs", []), ("fresh", False)):
            a.setdefault(k, v)
    elif a["a"] == "boot":
        a.setdefault("f1", False)
        a.setdefault("f2", False)
    elif a["a"] == "import":
        a.setdefault("fail", False)
    a["tick"] = bool(a.get("tick")) and a["a"] in TICK_ACTS
    return a


def stmt_src(a):
    """A structural script statement as source: (set-up, the statement, clean-up, global names it assigns)."""
    k = a["a"]
    if k == "define":
        return "", func_src(a["n"], a["g"], a["d"]), "", []
    if k == "del":
        return "", "del %s\n" % a["n"], "", [a["n"]]
    if k == "rebind":
        return "", "%s = %s\n" % (a["n"], a["m"]), "", [a["n"]]
    if k == "push":
        fac = "def vf_mk():\n" + func_src("inner", a["g"], a["d"], "    ") + "    return inner\n"
        return fac, ("L.append(vf_mk())\n" if a["where"] == "L" else 'D["k"] = vf_mk()\n'), "del vf_mk\n", []
    if k == "pop":
        return "", "del L[-1]\n", "", []
    if k == "clear":
        return "", "%s.clear()\n" % a["where"], "", []
    raise ValueError(k)


def occ_src(a, nset):
    """An occurrence produced by a script: event.fire / state.set / service.call (result reported through vf.tres)."""
    k = a["a"]
    if k == "fire":
        return 'event.fire("%s", p="1")\n' % a["e"]
    if k == "set":
        return 'state.set("pyscript.%s", "%d", x="p")\n' % (a["x"], nset)
    if k == "call":
        kws = "".join(', %s="%s"' % (k2, v) for k2, v in sorted(parse_kv(a["data"]).items()))
        return ('try:\n    service.call("pyscript", "%s"%s)\n    vf.tres("none")\n'
                'except Exception as vf_exc:\n    vf.tres(type(vf_exc).__name__)\n') % (a["s"], kws)
    raise ValueError(k)


def indent(src, by="    "):
    return "".join(by + ln + "\n" for ln in src.splitlines())


# ------------------------------------------------------------------------------------------------
# execution on the real integration
def run_case(case):
    """Execute case['steps'][*]['act'] on the real integration; fills in ['obs'] per step."""
    import asyncio
    import world
    legacy = case["sub"] == "legacy"
    ctxs = case["ctxs"]
    out = {"steps": [], "gcdep": 0, "error": None}
    base = {}

    def ptimers(loop):
        n = 0
        for h in loop._scheduled:
            if h._cancelled:
                continue
            cb = h._callback
            qn = getattr(cb, "__qualname__", None) or getattr(getattr(cb, "__func__", None), "__qualname__", "")
            if qn in ("_set_result_unless_cancelled", "Timeout._on_timeout", "_release_waiter"):
                n += 1
        return n

    async def pre(hass):
        from homeassistant.core import SupportsResponse
        sink = []
        base["sink"] = sink

        def tname(v):
            return {str: "str", int: "int", bool: "bool", type(None): "none"}.get(type(v), type(v).__name__)

        async def handler(call):
            # records exactly what arrives: every data item with the type and text of its value, and whether the
            # call ran under the script's Context; "done" tells whether the caller waited (see vf.sinkdone)
            rec = {"data": [{"k": k, "t": tname(v), "v": str(v)} for k, v in sorted(call.data.items())],
                   "ctx": call.context.id == "vfctx", "done": False}
            sink.append(rec)
            await asyncio.sleep(0)
            await asyncio.sleep(0)
            rec["done"] = True
            return {"ok": "1"}
        hass.services.async_register("vt", "sink", handler, supports_response=SupportsResponse.OPTIONAL)
        for x in ENT:
            hass.states.async_set("pyscript." + x, "0", {"x": "p"})
        await asyncio.sleep(0)
        base["lst"] = dict(hass.bus.async_listeners())
        base["svc"] = {d: set(s) for d, s in hass.services.async_services().items()}
        base["tm"] = ptimers(hass.loop)

    async def body(w):
        from homeassistant.const import EVENT_HOMEASSISTANT_STARTED
        from custom_components.pyscript.const import DOMAIN
        from custom_components.pyscript.eval import AstEval
        from custom_components.pyscript.event import Event
        from custom_components.pyscript.function import Function
        from custom_components.pyscript.global_ctx import GlobalContext, GlobalContextMgr
        from custom_components.pyscript.mqtt import Mqtt
        from custom_components.pyscript.state import State
        from custom_components.pyscript.webhook import Webhook
        hass, loop = w.hass, w.loop
        rec = []

        def rc(gen, kw):
            kw = {k: v for k, v in kw.items() if k != "context"}
            tt = kw.pop("trigger_type", "?")
            k, x = tt, "-"
            if tt == "time":
                k = str(kw.pop("trigger_time", "?"))
            elif tt == "event":
                x = str(kw.pop("event_type", "?"))
            elif tt == "state":
                x = str(kw.pop("var_name", "?")).replace("pyscript.", "")
                kw.pop("value", None)
                kw.pop("old_value", None)
            data = canon({k2: str(v) for k2, v in kw.items()})
            rec.append({"g": gen, "k": k, "x": x, "data": data})
            return data
        state = {"unloaded": False, "nset": 0, "mtime": 2000, "cell": None, "tres": None}
        Function.register({"vf.rc": rc, "vf.sinkdone": lambda: bool(base["sink"] and base["sink"][-1]["done"]),
                           "vf.tres": lambda v: state.__setitem__("tres", v)})

        # the Jupyter session context: created as jupyter_kernel_start does, cells run as the kernel runs them
        if "c3" in ctxs:
            name = CTXNAME["c3"]
            gctx = GlobalContext(name, global_sym_table={"__name__": name}, manager=GlobalContextMgr)
            gctx.set_auto_start(True)
            GlobalContextMgr.set(name, gctx)
            cell_ast = AstEval(name, gctx)
            Function.install_ast_funcs(cell_ast)

            async def cell(src):
                gctx.set_auto_start(False)
                try:
                    cell_ast.parse(src)
                    await cell_ast.eval()
                    await Function.waiter_sync()
                finally:
                    gctx.set_auto_start(True)
                    gctx.start()
            state["cell"] = cell
            await cell(prelude("c3"))

        async def quiesce():
            await w.settle()
            await asyncio.sleep(0.01)
            await w.settle()

        async def ex(c, src):
            if c == "c3":
                await state["cell"](src)
            else:
                await w.exec_in(CTXNAME[c], src)

        def ctx_of(name):
            if name is None:
                return "-"
            for c, n in CTXNAME.items():
                if name == n:
                    return c
                if name.startswith(n + "."):
                    return c + "!run"
            return name

        def tables():
            lis = hass.bus.async_listeners()
            act = {}
            for c in ALLCTX:
                g = GlobalContextMgr.get(CTXNAME[c])
                n = 0
                if g is not None:
                    if legacy:
                        n = sum(1 for f in g.triggers if f.name not in HELPERS and (f.trigger or f.trigger_service))
                    else:
                        n = sum(1 for dm in g.dms if dm.func_name not in HELPERS and str(dm.status) == "running")
                act[c] = n
            stray = sum(len(q) for k, q in State.notify.items() if k not in {"pyscript." + x for x in ENT})
            stray += sum(len(q) for k, q in Event.notify.items()
                         if legacy and k not in EV and not k.startswith(("vfspawn_", "vfimp_", "vfrun_")))
            stray += len(Event.notify) if not legacy else 0
            stray += len(Mqtt.notify) + len(Webhook.notify)

            # ONE service, however its name is spelled in the bookkeeping (HA folds service names): the count is
            # the sum over the spellings, the owner must be the same for all of them
            def spelled(table, s):
                return [v for k, v in table.items() if k.lower() == ("pyscript." + s).lower()]

            def owner(s):
                o = sorted({ctx_of(v) for v in spelled(Function.service2global_ctx, s)})
                return o[0] if len(o) == 1 else ("-" if not o else "several:" + "+".join(o))
            return {
                "cnt": {s: sum(spelled(Function.service_cnt, s)) for s in SVC},
                "has": {s: hass.services.has_service("pyscript", s) for s in SVC},
                "own": {s: owner(s) for s in SVC},
                "sr": {s: (str(getattr(hass.services.supports_response("pyscript", s), "value",
                                       hass.services.supports_response("pyscript", s)))
                           if hass.services.has_service("pyscript", s) else "-") for s in SVC},
                "sub": {x: len(State.notify.get("pyscript." + x, {})) for x in ENT},
                "evq": {e: (len(Event.notify.get(e, ())) if legacy else lis.get(e, 0)) for e in EV},
                "evl": {e: lis.get(e, 0) for e in EV},
                "tm": ptimers(loop) - base["tm"],
                "act": act,
                "ctx": {c: GlobalContextMgr.get(CTXNAME[c]) is not None for c in ALLCTX},
                "oth": stray,
            }

        def baseline():
            """After unload: HA against the snapshot taken before pyscript was set up."""
            if not state["unloaded"]:
                return "-"
            core = {"entity_registry_updated", "homeassistant_final_write", "homeassistant_started", "homeassistant_start",
                    "component_loaded", "core_config_updated"}
            lis = hass.bus.async_listeners()
            dl = sorted(k for k in set(lis) | set(base["lst"]) if lis.get(k, 0) != base["lst"].get(k, 0) and k not in core)
            svc = {d: set(s) for d, s in hass.services.async_services().items()}
            builtin = {"reload", "jupyter_kernel_start", "generate_stubs"}
            ds = sorted("%s.%s" % (d, s) for d in svc for s in svc[d] - base["svc"].get(d, set())
                        if not (d == "pyscript" and s in builtin))
            dt = ptimers(loop) - base["tm"]
            own = len(Function.our_tasks)
            ha_dirty = []
            if dl:
                ha_dirty.append("listeners:" + ",".join(dl))
            if ds:
                ha_dirty.append("services:" + ",".join(ds))
            if dt:
                ha_dirty.append("timers:%d" % dt)
            if own:
                ha_dirty.append("tasks:%d" % own)
            if ha_dirty == ["listeners:" + ",".join(dl)] and set(dl) <= set(EV):
                return "listeners"            # only listeners of the model's own event types are left
            if ha_dirty:
                return "dirty:" + ";".join(ha_dirty)
            queues = sum(len(q) for q in State.notify.values()) + sum(len(q) for q in Event.notify.values())
            return "tables" if queues else "clean"

        async def do(a):
            k = a["a"]
            res = {"k": "-", "g": 0, "data": "-"}
            if k == "define":
                await ex(a["c"], func_src(a["n"], a["g"], a["d"]))
            elif k == "del":
                await ex(a["c"], "del %s\n" % a["n"])
            elif k == "rebind":
                await ex(a["c"], "%s = %s\n" % (a["n"], a["m"]))
            elif k == "push":
                fac = "def vf_mk():\n" + func_src("inner", a["g"], a["d"], "    ") + "    return inner\n"
                if a["via"] == "exec":
                    store = "L.append(vf_mk())\n" if a["where"] == "L" else 'D["k"] = vf_mk()\n'
                    await ex(a["c"], fac + store + "del vf_mk\n")
                else:
                    await ex(a["c"], fac)
                    hass.bus.async_fire("vfspawn_" + a["c"], {"where": a["where"]})
                    await quiesce()
                    await ex(a["c"], "del vf_mk\n")
            elif k == "pop":
                await ex(a["c"], "del L[-1]\n")
            elif k == "clear":
                await ex(a["c"], "%s.clear()\n" % a["where"])
            elif k == "reload":
                state["mtime"] += 10
                if a["fresh"]:          # the module is not loaded: this load's "import mx" reads the file written now
                    w.write(MODFILE, file_src("c4", a["mdefs"], a["g"]), state["mtime"])
                w.write(FILE[a["c"]], file_src(a["c"], a["defs"], a["g"] + len(a["mdefs"]), a["fail"], a["im"]), state["mtime"])
                await w.reload()
            elif k == "import":
                if a["fresh"]:
                    state["mtime"] += 10
                    w.write(MODFILE, file_src("c4", a["mdefs"], a["g"], a["fail"]), state["mtime"])
                if a["via"] == "run":
                    hass.bus.async_fire("vfimp_" + a["c"], {})
                elif a["fail"]:         # the importer sees the module's exception: part of the scenario
                    await ex(a["c"], "try:\n    import mx\nexcept RuntimeError:\n    pass\n")
                else:
                    await ex(a["c"], "import mx\n")
            elif k == "close":
                if a["c"] == "c3":
                    GlobalContextMgr.delete(CTXNAME["c3"])
                    await Function.waiter_sync()
                else:
                    os.unlink(os.path.join(w.pdir, MODFILE if a["c"] == "c4" else FILE[a["c"]]))
                    await w.reload()
            elif k == "unload":
                entry = hass.config_entries.async_entries(DOMAIN)[0]
                if not await hass.config_entries.async_unload(entry.entry_id):
                    raise RuntimeError("unload refused")
                state["unloaded"] = True
            elif k == "boot":                 # the files were written before set-up: HA finishes starting now
                hass.bus.async_fire(EVENT_HOMEASSISTANT_STARTED)
            elif k == "fire":
                hass.bus.async_fire(a["e"], {"p": "1"})
            elif k == "set":
                state["nset"] += 1
                hass.states.async_set("pyscript." + a["x"], str(state["nset"]), {"x": "p"})
            elif k == "call":
                from homeassistant.exceptions import HomeAssistantError, ServiceNotFound
                try:
                    r = await hass.services.async_call("pyscript", a["s"], parse_kv(a["data"]), blocking=True,
                                                       return_response=a["rr"])
                    if a["rr"]:
                        res = {"k": "val", "g": int((r or {}).get("g", -1)), "data": str((r or {}).get("data", "?"))}
                    else:
                        res = {"k": "none", "g": 0, "data": "-"}
                except ServiceNotFound:
                    res = {"k": "notfound", "g": 0, "data": "-"}
                except HomeAssistantError:
                    res = {"k": "err", "g": 0, "data": "-"}
            elif k == "out":
                kws = []
                for kw in a["give"]:
                    val = {"str": repr(kw["v"]), "int": kw["v"], "bool": kw["v"], "none": "None",
                           "ctx": "Context(id=%r)" % kw["v"]}[kw["t"]]
                    kws.append("%s=%s" % (kw["k"], val))
                del base["sink"][:]
                call = "vt.sink(%s)" if a["form"] == "name" else 'service.call("vt", "sink", %s)'
                # vf_b: had the service finished when the call returned (= the caller waited: blocking)
                src = "from homeassistant.core import Context\nvf_o = %s\nvf_b = vf.sinkdone()\n" % (call % ", ".join(kws))
                await ex(a["c"], src)
                sym = GlobalContextMgr.get(CTXNAME[a["c"]]).global_sym_table
                vf_o, vf_b = sym.get("vf_o"), sym.get("vf_b")
                await quiesce()
                got = list(base["sink"])
                if len(got) == 1:
                    res = {"k": "out", "g": 0, "data": "-",
                           "o": {"data": got[0]["data"], "ctx": bool(got[0]["ctx"]), "blk": bool(vf_b),
                                 "rsp": vf_o == {"ok": "1"}}}
                else:
                    res = {"k": "calls:%d" % len(got), "g": 0, "data": "-"}
            else:
                raise ValueError(k)
            return res

        async def do_tick(a, o):
            """The structural statement a and the occurrence o in ONE script, nothing in between: as top-level
            statements of one source / cell (tvia = exec) or inside a running triggered function (tvia = run)."""
            setup, stmt, cleanup, glob = stmt_src(a)
            if o["a"] == "set":
                state["nset"] += 1
            state["tres"] = None
            body2 = stmt + occ_src(o, state["nset"])
            tvia = a["via"] if a["a"] == "push" else ("exec" if a["a"] == "define" else a.get("tvia", "exec"))
            if tvia == "exec":
                await ex(a["c"], setup + body2 + cleanup)
            else:
                gl = ("global %s\n" % ", ".join(glob)) if glob else ""
                await ex(a["c"], setup + "def vf_tick():\n" + indent(gl + body2))
                hass.bus.async_fire("vfrun_" + a["c"], {})
                await quiesce()
                await ex(a["c"], "del vf_tick\n" + cleanup)
            res = {"k": "-", "g": 0, "data": "-"}
            if o["a"] == "call":
                t = state["tres"]
                res["k"] = {"none": "none", "ServiceNotFound": "notfound", "KeyError": "notfound", "ServiceValidationError": "err",
                            "HomeAssistantError": "err"}.get(t, "exc:%s" % t)
            return res

        await quiesce()
        gc.collect()
        gc.freeze()
        if rec:
            out["error"] = "runs before the first step: %r" % rec[:3]
        # "rush" steps: the next action is issued at once, without waiting for quiescence and without an
        # observation (a deletion / redefinition / reload landing while the managers of the previous action are
        # still starting).  To make that window exist whatever the executor does, the refresh of the service
        # descriptions that ServiceDecorator.start awaits takes 3 ms of virtual time in such cases.
        rushing = any(st["act"].get("rush") for st in case["steps"])
        orig_gsp = State.__dict__.get("get_service_params")
        if rushing:
            real = State.get_service_params

            async def slow_get_service_params(cls):
                await asyncio.sleep(0.003)
                return await real()
            State.get_service_params = classmethod(slow_get_service_params)
            state["restore"] = lambda: setattr(State, "get_service_params", orig_gsp)
        behind = None              # the statement of a "tick" step, executed together with the next step's occurrence
        for st in case["steps"]:
            a = st["act"] = norm_act(st["act"])
            if a["tick"]:
                if behind is not None:
                    out["error"] = "two tick steps in a row"
                behind = a
                out["steps"].append({"act": a, "obs": {"skip": 1}})
                continue
            if behind is not None and a["a"] not in ("fire", "set", "call"):
                out["error"] = "tick step followed by %s" % a["a"]
            if a.get("rush"):
                try:
                    await do(a)
                except Exception as exc:
                    out["error"] = "rush step failed: %r" % exc
                out["steps"].append({"act": a, "obs": {"skip": 1}})
                continue
            try:
                res = await (do(a) if behind is None else do_tick(behind, a))
            except Exception as exc:  # recorded, decided by the trace specification (no such behaviour)
                res = {"k": "exc:" + type(exc).__name__, "g": 0, "data": str(exc)[:120]}
            behind = None
            await quiesce()
            t1 = tables()
            gc.collect()
            await quiesce()
            t2 = tables()
            if t1 != t2:
                out["gcdep"] += 1
                out.setdefault("gcdep_sample", {"act": a, "before": t1, "after": t2})
            obs = dict(t2)
            obs["runs"] = sorted(rec, key=lambda r: (r["g"], r["k"], r["x"], r["data"]))
            del rec[:]
            res.setdefault("o", {"data": [], "ctx": False, "blk": False, "rsp": False})
            obs["res"] = res
            obs["base"] = baseline()
            out["steps"].append({"act": a, "obs": obs})
        if behind is not None:
            out["error"] = "the recording ends with a tick step"
        gc.unfreeze()
        if state.get("restore"):
            state["restore"]()

    try:        # class-level registries that world.reset() does not know (present only with the proposed fix)
        from custom_components.pyscript.function import Function as _F
        getattr(_F, "service_handlers", {}).clear()
    except Exception:
        pass
    files = {FILE[c]: prelude(c) for c in ctxs if c in FILE}
    first = norm_act(case["steps"][0]["act"]) if case["steps"] else {}
    if not case["started"]:
        if first.get("a") != "boot":
            raise ValueError("a case that is not started must begin with boot")
        if "c1" in ctxs:
            files[FILE["c1"]] = file_src("c1", first["d1"], 1, first["f1"])
        if "c2" in ctxs:
            files[FILE["c2"]] = file_src("c2", first["d2"], 1 + len(first["d1"]), first["f2"])
    world.run(files, body, legacy=legacy, pre=pre, realfs=True, apps_cfg={"ab": {}} if "c2" in ctxs else None,
              start_event=case["started"])
    res = dict(case)
    res["steps"] = out["steps"]
    res["gcdep"] = out["gcdep"]
    if "gcdep_sample" in out:
        res["gcdep_sample"] = out["gcdep_sample"]
    if out["error"]:
        res["error"] = out["error"]
    return res


def work_cases(job):
    return [run_case(c) for c in job["cases"]]


# ------------------------------------------------------------------------------------------------
# TLC-simulated behaviours -> cases
def unset(v):
    """TLC value (parsed) -> JSON-able: sets become sorted lists."""
    if isinstance(v, dict):
        if "__set__" in v:
            return sorted((unset(x) for x in v["__set__"]), key=lambda x: json.dumps(x, sort_keys=True))
        return {k: unset(x) for k, x in v.items()}
    if isinstance(v, list):
        return [unset(x) for x in v]
    return v


def sim_cfg(path, consts, extra=""):
    c = {"MaxGen": 8, "MaxSteps": 12, "Ctx": '{"c1", "c2", "c3", "c4"}', "Name": '{"f", "g", "h"}', "FlagSets": "{{}}",
         "SubSet": '{"dm"}', "StartedSet": "{TRUE, FALSE}", "Eager": "TRUE", "DeclSet": "AllDecls",
         "MaxDefs": 2, "Vias": '{"exec", "run"}', "Rush": "FALSE",
         "Acts": "{%s}" % ", ".join('"%s"' % a for a in ALL_ACTS)}
    c.update(consts)
    with open(path, "w") as f:
        f.write("SPECIFICATION Spec\nCONSTANTS\n" + "".join(" %s %s %s\n" % (k, "<-" if str(v)[:1].isalpha() and str(v) not in ("TRUE", "FALSE") else "=", v) for k, v in c.items()) + extra +
                "CHECK_DEADLOCK FALSE\n")
    return path


def behaviours(ctx, label, consts, num, depth, seed):
    """tlc -simulate: returns list of [init, actions] (actions = lastAct records with arguments)."""
    cfg = sim_cfg(os.path.join(ctx.scratch, "Lifecycle_sim_%s.cfg" % label), consts)
    files = tlc.simulate("Lifecycle", cfg, ctx.scratch, num, depth, seed,
                         outdir=os.path.join(ctx.scratch, "sim_%s" % label))
    out = []
    for f in files:
        states = tlc.parse_trace_file(f)
        if len(states) < 2:
            continue
        acts = [unset(s["lastAct"]) for s in states[1:]]
        out.append({"started": bool(states[0]["started"]), "acts": acts})
    # a behaviour that never booted has no steps to replay
    out = [b for b in out if b["acts"]]
    return out


def ctxs_of(consts):
    return sorted(set(json.loads(consts.get("Ctx", '{"c1", "c2", "c3"}').replace("{", "[").replace("}", "]"))) - {"c4"})


def fix_ticks(acts, salt=0):
    """A behaviour may end (depth bound, constraint cut) between a tick statement and its occurrence: that statement
    is then an ordinary one.  How the pair is written - top-level statements or inside a running function - is a
    rendering choice the model does not make (tvia); a fixed function of the position, so that replays agree."""
    for i, a in enumerate(acts):
        if a.get("tick") and (i + 1 >= len(acts) or acts[i + 1]["a"] not in ("fire", "set", "call")):
            a["tick"] = False
        if a.get("tick") and "tvia" not in a:
            a["tvia"] = "run" if (i + salt) % 2 else "exec"
    return acts


def to_cases(behs, ctxs, prefix, subs=("dm", "legacy")):
    cases = []
    for i, b in enumerate(behs):
        fix_ticks(b["acts"], i)
        for sub in subs:
            cases.append({"id": "%s%d/%s" % (prefix, i, sub), "sub": sub, "started": b["started"], "ctxs": ctxs,
                          "steps": [{"act": dict(a)} for a in b["acts"]]})
            if b.get("victims"):
                cases[-1]["victims"] = b["victims"]
    return cases


# ------------------------------------------------------------------------------------------------
# random longer sequences (T): a generator with light bookkeeping of references (names bound, containers,
# loaded contexts, owners) so that only enabled actions are produced; TLC still decides every verdict and a
# step the model does not enable is a machinery failure.
DECL_POOL = [
    {"st": [], "ev": [], "tt": [], "svc": ["s1"], "resp": "none", "sf": "stack"},
    {"st": [], "ev": [], "tt": [], "svc": ["s1"], "resp": "optional", "sf": "stack"},
    {"st": [], "ev": [], "tt": [], "svc": ["s2"], "resp": "only", "sf": "stack"},
    {"st": [], "ev": ["e1"], "tt": [], "svc": ["s1", "s2"], "resp": "optional", "sf": "stack"},
    {"st": [], "ev": [], "tt": [], "svc": ["s1", "s2"], "resp": "none", "sf": "args"},
    {"st": ["a"], "ev": [], "tt": [], "svc": [], "resp": "none", "sf": "stack"},
    {"st": ["a", "a.old", "b"], "ev": ["e1"], "tt": [], "svc": [], "resp": "none", "sf": "stack"},
    {"st": ["a", "a.old", "b", "c"], "ev": [], "tt": [], "svc": [], "resp": "none", "sf": "stack"},
    {"st": ["a", "a.old", "a.x", "b", "c"], "ev": ["e2"], "tt": ["startup"], "svc": ["s2"], "resp": "optional", "sf": "stack"},
    {"st": [], "ev": ["e1"], "tt": ["shutdown", "startup"], "svc": [], "resp": "none", "sf": "stack"},
    {"st": ["b"], "ev": [], "tt": ["timer"], "svc": ["s1"], "resp": "none", "sf": "stack"},
    {"st": ["c"], "ev": ["e1", "e2"], "tt": ["shutdown", "timer"], "svc": [], "resp": "none", "sf": "stack"},
    {"st": ["b", "b.old", "c"], "ev": [], "tt": ["startup"], "svc": [], "resp": "none", "sf": "stack"},
    {"st": [], "ev": [], "tt": [], "svc": ["S3"], "resp": "none", "sf": "stack"},
    {"st": ["a"], "ev": ["e2"], "tt": [], "svc": ["S3"], "resp": "optional", "sf": "stack"},
    {"st": [], "ev": ["e1"], "tt": ["startup"], "svc": ["S3", "s2"], "resp": "none", "sf": "args"},
    {"st": [], "ev": [], "tt": [], "svc": ["s1"], "resp": "none", "sf": "stack", "alt": True},
    {"st": ["b"], "ev": [], "tt": [], "svc": ["S3", "s2"], "resp": "optional", "sf": "stack", "alt": True},
    # one function declaring a name twice (a declaration is a multiset of names)
    {"st": [], "ev": [], "tt": [], "svc": ["s1"], "resp": "none", "sf": "args", "dup": ["s1"]},
    {"st": [], "ev": ["e1"], "tt": [], "svc": ["s1", "s2"], "resp": "optional", "sf": "stack", "dup": ["s2"]},
]
def kw(k, t, v):
    return {"k": k, "t": t, "v": v}


# keyword sets of outgoing calls (= OutGives of Lifecycle.tla, each sorted by name): ordinary parameters, call
# options of the qualifying type (Context / bool), and parameters merely NAMED like call options
OUT_GIVE = [
    [kw("p", "str", "1")],
    [kw("p", "str", "2"), kw("q", "str", "x")],
    [kw("blocking", "bool", "True"), kw("p", "str", "1")],
    [kw("p", "str", "2"), kw("q", "str", "x"), kw("return_response", "bool", "False")],
    [kw("blocking", "bool", "False")],
    [kw("context", "str", "evening"), kw("level", "int", "3")],
    [kw("blocking", "str", "later"), kw("p", "str", "1")],
    [kw("blocking", "int", "0"), kw("context", "none", "None"), kw("return_response", "int", "3")],
    [kw("context", "ctx", "vfctx"), kw("p", "str", "1")],
    [kw("blocking", "bool", "True"), kw("context", "ctx", "vfctx"), kw("return_response", "bool", "True"), kw("x", "int", "1")],
    [kw("return_response", "str", "no"), kw("x", "int", "1")],
    [kw("blocking", "none", "None"), kw("return_response", "bool", "True")],
]


def gen_random(r, nsteps, ctxs, mask):
    """mask: set of deviation flags whose locus must be avoided (the masked space must be clean).
    Returns {"started", "acts"}."""
    mask = set(mask) - LIFTED_MASKS
    names = ["f", "g", "h"]
    gens = []                       # declaration and context per generation
    allc = list(ctxs) + ["c4"]      # c4 (the module) exists once it has been imported
    bind = {c: {n: 0 for n in names} for c in allc}
    cont = {c: {"L": [], "D": 0} for c in allc}
    loaded = set(ctxs)
    imp = set()                     # files / apps that hold an import of the module
    acts = []
    files = [c for c in ctxs if c in FILE]

    def refs(g):
        return (sum(1 for c in allc for v in bind[c].values() if v == g) + sum(cont[c]["L"].count(g) for c in allc)
                + sum(1 for c in allc if cont[c]["D"] == g))

    def referenced():
        s = set()
        for c in allc:
            s |= {g for g in bind[c].values() if g}
            s |= set(cont[c]["L"])
            if cont[c]["D"]:
                s.add(cont[c]["D"])
        return s

    def declared(s, other_than=None, ignore=0):
        ref = referenced() - {ignore}
        return [g for i, g in enumerate(gens) if (i + 1) in ref and s in g["d"]["svc"] and g["c"] != other_than]

    def pick_decl(c, via="exec", pending=(), fail=False, replacing=0):
        """pending: definitions of the same file content chosen so far; replacing: the generation whose only
        reference the new definition overwrites (a redefinition: it is gone when the step completes)."""
        for _ in range(40):
            d = r.choice(DECL_POOL)
            if fail and "shutdown" in d["tt"]:
                continue
            if "service-bookkeeping-keyed-by-spelling" in mask and any(
                    bool(g["d"].get("alt")) != bool(d.get("alt"))
                    for s in d["svc"] for g in declared(s, ignore=0) + [dict(df) for df in pending if s in df["d"]["svc"]]):
                continue                      # no two live declarations that spell one name differently
            if "dm-service-multi-arg-rejected" in mask and d["sf"] == "args" and len(d["svc"]) > 1:
                continue
            if "service-handler-not-repointed" in mask and d.get("dup"):
                continue                      # (two declarations of one name, be it by one function)
            if via == "run" and (d["tt"] or len(d["svc"]) > 1):
                continue
            if "dm-service-owner-is-evaluator-name" in mask and via == "run" and d["svc"]:
                continue
            if "notify-del-returns-early" in mask and len({n.split(".")[0] for n in d["st"]}) < len(d["st"]):
                continue
            if any(declared(s, other_than=c) for s in d["svc"]) and len(d["svc"]) != 1:
                continue                      # cross-context conflict only with a single service
            if any(set(df["d"]["svc"]) & set(d["svc"]) and df["c"] != c for df in pending):
                continue
            if "service-handler-not-repointed" in mask and d["svc"]:
                # at most one live declaration per service
                if any(declared(s, ignore=replacing) for s in d["svc"]) or any(set(df["d"]["svc"]) & set(d["svc"]) for df in pending):
                    continue
            if "dm-start-order-arbitrary" in mask and any(set(df["d"]["svc"]) & set(d["svc"]) for df in pending):
                continue
            return d
        return None

    def content(c, others=(), fail=False, distinct=False):
        defs = []
        for _ in range(r.choice([0, 1, 1, 2, 2])):
            d = pick_decl(c, pending=list(others) + [dict(df, c=c) for df in defs], fail=fail)
            if d is None:
                continue
            n = r.choice(names)
            dup = [df for df in defs if df["n"] == n]
            if dup and (distinct or "dm-delayed-start-ignores-drop" in mask or any("shutdown" in df["d"]["tt"] for df in dup)):
                continue
            defs.append({"n": n, "d": d})
        return defs

    def install(c, defs, fail=False):
        """fail: the content raises after its definitions - the context is not loaded, nothing is bound."""
        bind[c] = {n: 0 for n in names}
        cont[c] = {"L": [], "D": 0}
        for df in defs:
            gens.append({"c": c, "d": df["d"]})
            if not fail:
                bind[c][df["n"]] = len(gens)
        if fail:
            loaded.discard(c)
        else:
            loaded.add(c)

    def coin(p):
        return r.random() < p

    started = r.random() < 0.7 or not files
    if not started:
        f1 = "c1" in ctxs and coin(0.2)
        f2 = "c2" in ctxs and coin(0.2)
        d1 = content("c1", fail=f1) if "c1" in ctxs else []
        d2 = content("c2", others=[dict(df, c="c1") for df in d1], fail=f2) if "c2" in ctxs else []
        # no cross-context overlap while HA is starting
        s1 = {s for df in d1 for s in df["d"]["svc"]}
        d2 = [df for df in d2 if not (set(df["d"]["svc"]) & s1)]
        # drop definitions that became duplicates with shutdown by filtering (kept simple: re-check)
        acts.append({"a": "boot", "d1": d1, "d2": d2, "f1": f1, "f2": f2, "g": 1})
        if "c1" in ctxs:
            install("c1", d1, f1)
        if "c2" in ctxs:
            install("c2", d2, f2)
    kinds = ["define", "del", "rebind", "push", "pop", "clear", "reload", "close", "unload", "fire", "set", "call", "out",
             "import"]
    weights = [18, 8, 5, 12, 4, 4, 7, 2, 1, 9, 9, 13, 3, 6]
    tries = 0

    def behind(before, newgen=None):
        """With probability 1/3 the script goes on, right behind the statement just appended, with an occurrence -
        preferably one the generations that have just lost their last reference were waiting for."""
        if not coin(0.34):
            return
        lost = [gens[g - 1]["d"] for g in sorted(before - referenced())]
        hot = set(newgen["svc"]) if newgen else set()
        only = {s for g in gens for s in g["d"]["svc"] if g["d"]["resp"] == "only"}
        cands = []
        for d in lost:
            cands += [{"a": "fire", "e": e} for e in d["ev"]] + [{"a": "set", "x": n.split(".")[0]} for n in d["st"]]
            cands += [{"a": "call", "s": sv, "data": r.choice(["-", "p=1", "p=2,q=x"]), "rr": False} for sv in d["svc"]]
        if not cands or coin(0.25):
            cands = [{"a": "fire", "e": e} for e in EV] + [{"a": "set", "x": x} for x in ENT]
            cands += [{"a": "call", "s": sv, "data": "p=1", "rr": False} for sv in SVC]
        # (a call right behind the statement: without response; not of a name the new definition declares)
        cands = [o for o in cands if o["a"] != "call" or (o["s"] not in hot and o["s"] not in only)]
        if not cands:
            return
        acts[-1]["tick"] = True
        acts[-1]["tvia"] = r.choice(["exec", "run"])
        acts.append(r.choice(cands))

    while len(acts) < nsteps and tries < nsteps * 30:
        tries += 1
        k = r.choices(kinds, weights)[0]
        before = referenced()
        if k == "unload":
            if len(acts) < nsteps * 0.7:
                continue
            acts.append({"a": "unload"})
            break
        if k == "fire":
            acts.append({"a": "fire", "e": r.choice(EV)})
        elif k == "set":
            acts.append({"a": "set", "x": r.choice(ENT)})
        elif k == "call":
            s = r.choice(SVC)
            rr = r.random() < 0.4
            if not rr and any(g["d"]["resp"] == "only" for g in gens if s in g["d"]["svc"]):
                rr = True                      # a plain call of a response-only service is not generated
            acts.append({"a": "call", "s": s, "data": r.choice(["-", "p=1", "p=2,q=x"]), "rr": rr})
        elif k == "reload":
            if not files:
                continue
            c = r.choice(files)
            fail, im = coin(0.2), coin(0.25)
            fresh = im and "c4" not in loaded
            # the module's content is chosen on the state BEFORE the reload (as the model's guard is)
            mdefs = content("c4") if fresh else []
            bind[c] = {n: 0 for n in names}       # the old context's declarations are gone when the new ones register
            cont[c] = {"L": [], "D": 0}
            defs = content(c, others=[dict(df, c="c4") for df in mdefs], fail=fail)
            acts.append({"a": "reload", "c": c, "defs": defs, "fail": fail, "im": im, "mdefs": mdefs, "fresh": fresh,
                         "g": len(gens) + 1})
            if fresh:
                install("c4", mdefs)
            install(c, defs, fail)
            imp.discard(c)
            if im and not fail:
                imp.add(c)
        elif k == "import":
            cands = sorted(loaded - {"c4"})
            if not cands:
                continue
            c = r.choice(cands)
            via = "run" if coin(0.5) else "exec"
            fresh = "c4" not in loaded
            if fresh and c == "c3" and via == "exec" and "session-import-module-not-started" in mask:
                continue
            # (a module that fails while a session cell imports it: not specified, not generated)
            fail = fresh and coin(0.2) and not (c == "c3" and via == "exec")
            mdefs = content("c4", fail=fail, distinct=True) if fresh else []
            acts.append({"a": "import", "c": c, "mdefs": mdefs, "via": via, "fail": fail, "fresh": fresh, "g": len(gens) + 1})
            if fresh:
                install("c4", mdefs, fail)
            if not fail:
                imp.add(c)
        else:
            if not loaded:
                continue
            c = r.choice(sorted(loaded))
            if k == "close":
                if len(loaded) <= 1 or (len(acts) < nsteps * 0.4 and c != "c4"):
                    continue
                if c == "c4" and imp & {"c1", "c2"}:      # its importers would be reloaded with it
                    continue
                bind[c] = {n: 0 for n in names}
                cont[c] = {"L": [], "D": 0}
                loaded.discard(c)
                imp.discard(c)
                acts.append({"a": "close", "c": c})
            elif k == "define":
                n = r.choice(names)
                old = bind[c][n]
                d = pick_decl(c, replacing=old if old and refs(old) == 1 else 0)
                if d is None:
                    continue
                gens.append({"c": c, "d": d})
                bind[c][n] = len(gens)
                acts.append({"a": "define", "c": c, "n": n, "d": d, "g": len(gens)})
                behind(before, d)
            elif k == "del":
                bound = [n for n in names if bind[c][n]]
                if not bound:
                    continue
                n = r.choice(bound)
                bind[c][n] = 0
                acts.append({"a": "del", "c": c, "n": n})
                behind(before)
            elif k == "rebind":
                pairs = [(n, m) for n in names for m in names if n != m and bind[c][m] and bind[c][n] != bind[c][m]]
                if not pairs:
                    continue
                n, m = r.choice(pairs)
                bind[c][n] = bind[c][m]
                acts.append({"a": "rebind", "c": c, "n": n, "m": m})
                behind(before)
            elif k == "push":
                via = "run" if r.random() < 0.3 else "exec"
                where = r.choice(["L", "D"])
                if where == "L" and len(cont[c]["L"]) >= 2:
                    continue
                d = pick_decl(c, via=via)
                if d is None:
                    continue
                gens.append({"c": c, "d": d})
                if where == "L":
                    cont[c]["L"].append(len(gens))
                else:
                    cont[c]["D"] = len(gens)
                acts.append({"a": "push", "c": c, "d": d, "where": where, "via": via, "g": len(gens)})
                behind(before, d)
            elif k == "pop":
                if not cont[c]["L"]:
                    continue
                cont[c]["L"].pop()
                acts.append({"a": "pop", "c": c})
                behind(before)
            elif k == "clear":
                where = r.choice(["L", "D"])
                if (where == "L" and not cont[c]["L"]) or (where == "D" and not cont[c]["D"]):
                    continue
                if where == "L":
                    cont[c]["L"] = []
                else:
                    cont[c]["D"] = 0
                acts.append({"a": "clear", "c": c, "where": where})
                behind(before)
            elif k == "out":
                acts.append({"a": "out", "c": c, "form": r.choice(["name", "call"]), "give": r.choice(OUT_GIVE)})
    return {"started": started, "acts": acts}


def gen_random_case(seed, nsteps, ctxs, mask):
    return gen_random(random.Random(seed), nsteps, ctxs, mask)


# ------------------------------------------------------------------------------------------------
# validation by TLC
def slim(case):
    return {"id": case["id"], "sub": case["sub"], "started": case["started"], "ctxs": case["ctxs"],
            "steps": [{"act": norm_act(s["act"]), "obs": s["obs"], "rush": bool(s["act"].get("rush")),
                       "tick": norm_act(s["act"])["tick"]} for s in case["steps"]]}


def run_trace(ctx, cases, flagsets, label, workers=4):
    workers = min(workers, int(os.environ.get("VERIF_DEV_NPROC", "64")))
    path = os.path.join(ctx.scratch, "life_%s.json" % label)
    with open(path, "w") as f:
        json.dump({"flagsets": flagsets, "cases": [slim(c) for c in cases]}, f)
    res = tlc.run("LifecycleTrace", "LifecycleTrace.cfg", ctx.scratch, workers=workers, env={"CASES": path},
                  timeout=3000, allow_violation=False)
    ctx.add_tlc(res, "LifecycleTrace:" + label)
    # a recording is accepted under a flag set iff SOME behaviour of the model matches it (deviation flags make
    # the model nondeterministic: each wrong choice ends in a REJECT line, the right one in ACCEPT)
    verdict = {}
    for j in res.rejects:
        old = verdict.get((j["id"], j["fs"]))
        if old is None or j["step"] > old[1]["step"]:
            verdict[(j["id"], j["fs"])] = ("reject", j)
    for line in res.out.splitlines():
        s = line.strip().strip('"')
        if s.startswith("ACCEPT "):
            j = json.loads(s[7:].replace('\\"', '"'))
            verdict[(j["id"], j["fs"])] = ("accept", j.get("cut", 0))
    return verdict


def applicable_flags(case):
    return [f for f in ALL_FLAGS if not (f in DM_ONLY and case["sub"] != "dm")]


def validate(ctx, cases, label, report=True, beside=None):
    """Returns (accepted ids, rejections: list of {case, flags(explaining) | None, rej}).
    beside(accepted_ids): optional callable run concurrently with the classification."""
    for c in cases:
        if c.get("error"):
            raise MachineryFailure("harness: %s (%s)" % (c["error"], c["id"]))
        if len(c["steps"]) == 0:
            raise MachineryFailure("empty recording %s" % c["id"])
    v0 = run_trace(ctx, cases, [[]], label)
    accepted, todo = [], []
    for c in cases:
        v = v0.get((c["id"], 1))
        if v is None:
            raise MachineryFailure("LifecycleTrace: no verdict for %s: an action of the recording is not enabled in the "
                                   "model (generator or harness defect)" % c["id"])
        if v[0] == "accept":
            if v[1]:
                raise MachineryFailure("%s: step %d lies outside the specified region of the model for flags = {} "
                                       "(generator defect)" % (c["id"], v[1]))
            accepted.append(c["id"])
        else:
            todo.append((c, v[1]))
    ctx.cov["traces_validated_against_impl"] += len(cases)
    rejections = []
    side = None
    if beside:
        import threading
        box = {}

        def runner():
            try:
                beside(accepted)
            except BaseException as e:      # re-raised in the main thread
                box["exc"] = e
        side = (threading.Thread(target=runner), box)
        side[0].start()
    live = {f["signature"].get("clause") for f in getattr(ctx, "findings", []) if f.get("status") == "known"}
    if todo:
        # classify: smallest set of named deviations under which the whole recording is accepted
        # (the dm-only deviations have no effect on legacy recordings: one run for all)
        items = todo
        for sizes in ((1, 2), (3, 4), (5, 6)):
            if not items:
                break
            fsets = [list(x) for n in sizes for x in itertools.combinations(ALL_FLAGS, n)]
            v = run_trace(ctx, [c for c, _ in items], fsets, label + "_classify%d" % sizes[0])
            rest = []
            for c, rj in items:
                ok = [(fsets[i], v[(c["id"], i + 1)][1]) for i in range(len(fsets))
                      if v.get((c["id"], i + 1), ("x",))[0] == "accept"]
                # smallest set; among equally small ones prefer deviations that are still present in the code under
                # test (known_findings.jsonl, status known) to repaired ones whose model happens to fit as well, then
                # the explanation that validates most of the recording (no cut, else the latest cut)
                ok.sort(key=lambda x: (len(x[0]), sum(1 for f in x[0] if f not in live), x[1] != 0, -x[1]))
                ok = [x[0] for x in ok]
                if ok:
                    rejections.append({"case": c, "flags": ok[0], "rej": rj})
                else:
                    rest.append((c, rj))
            items = rest
        for c, rj in items:
            rejections.append({"case": c, "flags": None, "rej": rj})
    if side:
        side[0].join()
        if "exc" in side[1]:
            raise side[1]["exc"]
    if report:
        for rj in rejections:
            report_rejection(ctx, rj)
    return accepted, rejections


def report_rejection(ctx, rj):
    c = rj["case"]
    flags = rj["flags"] or ["unexplained"]
    step = rj["rej"]["step"]
    if os.environ.get("VERIF_DUMP_REJ"):       # development aid: every rejection (also the known ones) with its recording
        with open(os.environ["VERIF_DUMP_REJ"], "a") as f:
            f.write(json.dumps({"id": c["id"], "flags": rj["flags"], "rej": rj["rej"], "acts": [s["act"] for s in c["steps"]]}) + "\n")
    for fl in flags:
        sig = {"clause": fl, "subsystem": c["sub"]}
        if c.get("masked"):                  # the masked space must be clean: never matches a known entry
            sig = {"clause": "masked:" + fl, "subsystem": c["sub"], "masked": True}
        ctx.report(sig, "%s [%s]" % (WHAT.get(fl, fl), c["sub"]),
                   {"case": {k: v for k, v in c.items() if k != "steps"} | {"acts": [s["act"] for s in c["steps"]]},
                    "step": step, "act": c["steps"][step - 1]["act"], "expected": rj["rej"].get("exp"),
                    "observed": rj["rej"].get("obs"), "explained_by": rj["flags"]})


def execute(ctx, cases, nproc=14):
    """Run the cases on the real code in worker processes (hash seeds 0..3)."""
    nproc = max(1, min(nproc, len(cases), int(os.environ.get("VERIF_DEV_NPROC", "64"))))   # cap while developing
    chunks = [{"cases": cases[i::nproc]} for i in range(nproc)]
    res = run_workers("harness.lifecycle", "work_cases", chunks, ctx.scratch, nproc=nproc)
    out = {}
    for ch in res:
        for c in ch:
            out[c["id"]] = c
    return [out[c["id"]] for c in cases]


def decls_before(steps, i):
    """The declarations evaluated by the steps before step i."""
    out = []
    for st in steps[:i]:
        a = st["act"]
        out += [a["d"]] if "d" in a else []
        for k in ("defs", "mdefs", "d1", "d2"):
            out += [df["d"] for df in a.get(k, [])]
    return out


def selftest(ctx, accepted_cases, want=24):
    """Corrupt accepted recordings (drop a run, flip a count, change a result): TLC must reject each."""
    bad = []
    kinds = set()
    r = random.Random(ctx.seed)
    for c in accepted_cases:
        if len(bad) >= want and kinds >= {"import", "fail", "case", "tick", "dup"}:
            break
        if any(s["act"].get("rush") for s in c["steps"]):
            continue
        # an occurrence right behind the deleting statement that runs the deleted function (or finds its service)
        for v in c.get("victims", []):
            o = c["steps"][v["step"]]["obs"]
            if v["run"] in o["runs"]:
                continue
            c2 = copy.deepcopy(slim(c))
            c2["id"] = "corrupt-tick%d/%s" % (v["step"], c["id"])
            o2 = c2["steps"][v["step"]]["obs"]
            o2["runs"] = sorted(o2["runs"] + [v["run"]], key=lambda x: (x["g"], x["k"], x["x"], x["data"]))
            if v["run"]["k"] == "service":
                o2["res"]["k"] = "none"
            bad.append(c2)
            kinds.add("tick")
        if any(s["act"].get("tick") for s in c["steps"]):
            continue
        steps = c["steps"]
        idx = [i for i, s in enumerate(steps) if s["obs"]["runs"]]
        if idx:
            c2 = copy.deepcopy(slim(c))
            c2["id"] = "corrupt-droprun/" + c["id"]
            c2["steps"][idx[0]]["obs"]["runs"].pop(0)
            bad.append(c2)
        idx = [i for i, s in enumerate(steps) if s["obs"]["res"]["k"] == "val"]
        if idx:
            c2 = copy.deepcopy(slim(c))
            c2["id"] = "corrupt-result/" + c["id"]
            c2["steps"][idx[0]]["obs"]["res"]["g"] += 1
            bad.append(c2)
        idx = [i for i, s in enumerate(steps) if s["obs"]["res"]["k"] == "out" and s["obs"]["res"]["o"]["data"]]
        if idx:
            c2 = copy.deepcopy(slim(c))
            c2["id"] = "corrupt-outdata/" + c["id"]
            c2["steps"][idx[-1]]["obs"]["res"]["o"]["data"].pop()
            bad.append(c2)
        i = r.randrange(len(steps))
        c2 = copy.deepcopy(slim(c))
        c2["id"] = "corrupt-table/" + c["id"]
        fld, key = r.choice([("cnt", "s1"), ("sub", "a"), ("evq", "e1"), ("act", "c1"), ("sub", "b")])
        c2["steps"][i]["obs"][fld][key] += 1
        bad.append(c2)
        idx = [i for i, s in enumerate(steps) if any(s["obs"]["has"].values())]
        if idx:
            c2 = copy.deepcopy(slim(c))
            c2["id"] = "corrupt-has/" + c["id"]
            s = [k for k, v in c2["steps"][idx[0]]["obs"]["has"].items() if v][0]
            c2["steps"][idx[0]]["obs"]["has"][s] = False
            bad.append(c2)
        # a function that declared a name twice goes away and one registration stays behind
        idx = [(i, sv) for i in range(1, len(steps)) for sv in SVC
               if steps[i - 1]["obs"]["cnt"][sv] >= 2 and steps[i]["obs"]["cnt"][sv] == 0
               and any(sv in df.get("dup", ()) for df in decls_before(steps, i))]
        if idx:
            i, sv = idx[0]
            c2 = copy.deepcopy(slim(c))
            c2["id"] = "corrupt-dup/" + c["id"]
            o2, o1 = c2["steps"][i]["obs"], c2["steps"][i - 1]["obs"]
            o2["cnt"][sv], o2["has"][sv], o2["own"][sv], o2["sr"][sv] = 1, True, o1["own"][sv], o1["sr"][sv]
            bad.append(c2)
            kinds.add("dup")
        # the module: an import that leaves the module's functions stopped / the module unloaded
        idx = [i for i, s in enumerate(steps) if s["act"]["a"] in ("import", "reload") and s["act"].get("fresh")
               and s["obs"]["act"]["c4"] > 0]
        if idx:
            c2 = copy.deepcopy(slim(c))
            c2["id"] = "corrupt-import/" + c["id"]
            c2["steps"][idx[0]]["obs"]["act"]["c4"] = 0
            bad.append(c2)
            c2 = copy.deepcopy(slim(c))
            c2["id"] = "corrupt-modctx/" + c["id"]
            c2["steps"][idx[0]]["obs"]["ctx"]["c4"] = False
            bad.append(c2)
            kinds.add("import")
        # a failed load that leaves a declared service registered / its context loaded
        idx = [(i, sv) for i, s in enumerate(steps) for sv in SVC
               if s["act"]["a"] in ("reload", "import", "boot") and (s["act"].get("fail") or s["act"].get("f1"))
               and any(sv in df["d"]["svc"] for df in s["act"].get("defs", s["act"].get("mdefs", s["act"].get("d1"))))
               and not s["obs"]["has"][sv]]
        if idx:
            i, sv = idx[0]
            c2 = copy.deepcopy(slim(c))
            c2["id"] = "corrupt-failload/" + c["id"]
            c2["steps"][i]["obs"]["has"][sv] = True
            c2["steps"][i]["obs"]["cnt"][sv] = 1
            bad.append(c2)
            kinds.add("fail")
        # a service spelled with an upper-case letter that vanishes although declared
        idx = [i for i, s in enumerate(steps) if s["obs"]["has"]["S3"] and s["act"]["a"] == "define"]
        if idx:
            c2 = copy.deepcopy(slim(c))
            c2["id"] = "corrupt-case/" + c["id"]
            c2["steps"][idx[-1]]["obs"]["has"]["S3"] = False
            bad.append(c2)
            kinds.add("case")
    if len(bad) < 4:
        raise MachineryFailure("selftest: nothing to corrupt")
    ctx.cov["selftest_corruption_kinds_of_round3"] = sorted(kinds)
    v = run_trace(ctx, bad, [[]], "corrupt")
    missed = [c["id"] for c in bad if v.get((c["id"], 1), ("x",))[0] != "reject"]
    if missed:
        raise MachineryFailure("selftest: corrupted recordings not rejected: %s" % missed[:3])
    ctx.cov["selftest_corruptions_rejected"] = len(bad)


# ------------------------------------------------------------------------------------------------
# directed witnesses of the known deviations (re-executed on every run)
def D(st=(), ev=(), tt=(), svc=(), resp="none", sf="stack", alt=False, dup=()):
    return {"st": sorted(st), "ev": sorted(ev), "tt": sorted(tt), "svc": sorted(svc), "resp": resp, "sf": sf, "alt": alt,
            "dup": sorted(dup)}


RACE_DECLS = [D(st=["a"], ev=["e1"], svc=["s1"]), D(st=["b"], ev=["e1"], svc=["s1"], resp="optional"),
              D(ev=["e1", "e2"], svc=["s2"]), D(st=["a", "b"], svc=["s1", "s2"], resp="optional")]


def race_after(first, second, r=None):
    if second["a"] == "unload":
        return [first, second]
    acts = [first, second, {"a": "fire", "e": "e1"}, {"a": "set", "x": "a"}, {"a": "set", "x": "b"},
            {"a": "call", "s": "s1", "data": "p=1", "rr": False}]
    if second["a"] != "unload":
        acts.append({"a": "unload"})
    return acts


def gen_race(r):
    """Random member of the family: a definition whose managers / trigger tasks are started as tasks (Jupyter cell,
    file load) immediately followed - no quiescence - by something that ends it."""
    d, d2 = r.choice(RACE_DECLS), r.choice(RACE_DECLS)
    n = r.choice(["f", "g"])
    if r.random() < 0.4:
        c = "c3"
        first = {"a": "define", "c": c, "n": n, "d": d, "g": 1, "rush": True}
        kinds = ["del", "redef", "close", "rebindover"]
    else:
        c = r.choice(["c1", "c2"])
        first = {"a": "reload", "c": c, "defs": [{"n": n, "d": d}], "g": 1, "rush": True}
        kinds = ["del", "redef", "close", "reload", "reload2", "unload"]
    k = r.choice(kinds)
    second = {"del": {"a": "del", "c": c, "n": n}, "redef": {"a": "define", "c": c, "n": n, "d": d2, "g": 2},
              "close": {"a": "close", "c": c}, "reload": {"a": "reload", "c": c, "defs": [], "g": 2},
              "reload2": {"a": "reload", "c": c, "defs": [{"n": n, "d": d2}], "g": 2}, "unload": {"a": "unload"},
              "rebindover": {"a": "define", "c": c, "n": n, "d": D(st=["c"]), "g": 2}}[k]
    acts = race_after(first, second)
    # a plain call of a response-only service is not generated: none of RACE_DECLS is response-only
    return {"started": True, "acts": acts}


# ------------------------------------------------------------------------------------------------
# the statement that takes the last reference away, followed by the same script by an occurrence (tick)
TICK_DECLS = [D(ev=["e1"]), D(ev=["e1"], svc=["s1"]), D(st=["a"], ev=["e2"]), D(st=["a", "b"], ev=["e1"], svc=["s2"], resp="optional"),
              D(ev=["e1", "e2"], tt=["shutdown"]), D(st=["b"], svc=["S3"]), D(st=["c"], ev=["e1"], tt=["timer"]),
              D(ev=["e2"], svc=["s1", "s2"], sf="args")]


def occ_for(r, d, avoid=()):
    """An occurrence the declaration d waits for (a call: without response, not of a name in avoid)."""
    cands = [{"a": "fire", "e": e} for e in d["ev"]] + [{"a": "set", "x": n.split(".")[0]} for n in d["st"]]
    cands += [{"a": "call", "s": sv, "data": r.choice(["-", "p=1", "p=2,q=x"]), "rr": False} for sv in d["svc"] if sv not in avoid]
    return r.choice(cands)


def victim_run(o, g):
    """The run of generation g that the occurrence o would cause if g were still subscribed."""
    if o["a"] == "fire":
        return {"g": g, "k": "event", "x": o["e"], "data": "p=1"}
    if o["a"] == "set":
        return {"g": g, "k": "state", "x": o["x"], "data": "-"}
    return {"g": g, "k": "service", "x": "-", "data": o["data"]}


def gen_tick(r):
    """Random member of the family: a function (generation 1) held by a global name / the dict slot / the list, next
    to a bystander (generation 2) with the same triggers held elsewhere; ONE statement takes the last reference of
    generation 1 away - del, rebinding over it, redefinition, a store over the dict slot, clear, pop - written at
    top level or inside a running function, in a file, an app or a Jupyter session; the same script goes on at once
    with an occurrence generation 1 was waiting for; then the same occurrence at quiescence, and unload."""
    c = r.choice(["c1", "c2", "c3"])
    d = r.choice(TICK_DECLS)
    by = dict(d, svc=[], resp="none", sf="stack")       # the bystander: same triggers, no service
    d3 = r.choice(TICK_DECLS)
    hold = r.choice(["name", "name", "D", "L"])
    tvia = r.choice(["exec", "run"])
    acts = []
    if by["ev"] or by["st"] or by["tt"]:
        acts.append({"a": "define", "c": c, "n": "g", "d": by, "g": 1})
    g1 = len(acts) + 1
    new = None
    if hold == "name":
        acts.append({"a": "define", "c": c, "n": "f", "d": d, "g": g1})
        how = r.choice(["del", "rebind", "redef"] if len(acts) == 2 else ["del", "redef"])
        if how == "del":
            acts.append({"a": "del", "c": c, "n": "f"})
        elif how == "rebind":
            acts.append({"a": "rebind", "c": c, "n": "f", "m": "g"})
        else:
            new = d3
            acts.append({"a": "define", "c": c, "n": "f", "d": d3, "g": g1 + 1})
    elif hold == "D":
        acts.append({"a": "push", "c": c, "d": d, "where": "D", "via": "exec", "g": g1})
        if r.random() < 0.5 and not d3["tt"]:
            new = d3 = dict(d3, svc=d3["svc"][:1], sf="stack")
            tvia = r.choice(["exec", "run"])
            acts.append({"a": "push", "c": c, "d": d3, "where": "D", "via": tvia, "g": g1 + 1})
        else:
            acts.append({"a": "clear", "c": c, "where": "D"})
    else:
        acts.append({"a": "push", "c": c, "d": d, "where": "L", "via": "exec", "g": g1})
        acts.append(r.choice([{"a": "pop", "c": c}, {"a": "clear", "c": c, "where": "L"}]))
    # (a call: only of a name the new definition does not declare; a function that is merely redefined / replaced by
    # a definition with the same service is then asked something else)
    only_svc = not (d["ev"] or d["st"])
    avoid = set(new["svc"]) if new else set()
    if only_svc and set(d["svc"]) <= avoid:
        return gen_tick(r)
    o = occ_for(r, d, avoid)
    acts[-1]["tick"] = True
    acts[-1]["tvia"] = tvia
    acts += [o, dict(o), {"a": "set", "x": "a"}, {"a": "fire", "e": "e1"}, {"a": "unload"}]
    return {"started": True, "acts": acts, "victims": [{"step": len(acts) - 5, "run": victim_run(o, g1)}]}


def witnesses(race=True, tick_all=True):
    s1 = D(svc=["s1"])
    multi = D(st=["a", "a.old", "b", "c"])
    ev = D(ev=["e1"])
    w = []
    w.append(("handler", ["dm", "legacy"], [
        {"a": "define", "c": "c1", "n": "g", "d": s1, "g": 1}, {"a": "define", "c": "c1", "n": "f", "d": s1, "g": 2},
        {"a": "call", "s": "s1", "data": "p=1", "rr": False}, {"a": "del", "c": "c1", "n": "f"},
        {"a": "call", "s": "s1", "data": "p=1", "rr": False}]))
    for k in range(4):          # four copies: the workers run under hash seeds 0..3 (the leak needs 0 or 2)
        w.append(("notifydel%d" % k, ["dm", "legacy"], [
            {"a": "define", "c": "c1", "n": "f", "d": multi, "g": 1}, {"a": "set", "x": "b"},
            {"a": "del", "c": "c1", "n": "f"}, {"a": "set", "x": "b"}, {"a": "unload"}]))
    w.append(("delayed", ["dm"], [
        {"a": "reload", "c": "c1", "defs": [{"n": "f", "d": ev}, {"n": "f", "d": ev}], "g": 1}, {"a": "fire", "e": "e1"}]))
    for k in range(6):          # the order of a set of objects: vary the allocation history
        pre = [{"a": "define", "c": "c3", "n": "h", "d": D(st=["b"]), "g": i + 1} for i in range(k)]
        w.append(("order%d" % k, ["dm"], pre + [
            {"a": "reload", "c": "c1", "defs": [{"n": "g", "d": s1}, {"n": "f", "d": s1}], "g": k + 1},
            {"a": "call", "s": "s1", "data": "-", "rr": False}]))
    w.append(("owner", ["dm"], [
        {"a": "define", "c": "c1", "n": "f", "d": s1, "g": 1},
        {"a": "push", "c": "c1", "d": D(ev=["e1"], svc=["s1"]), "where": "L", "via": "run", "g": 2},
        {"a": "call", "s": "s1", "data": "-", "rr": False}, {"a": "fire", "e": "e1"}]))
    w.append(("multiarg", ["dm"], [
        {"a": "define", "c": "c1", "n": "f", "d": D(ev=["e1"], svc=["s1", "s2"], sf="args"), "g": 1},
        {"a": "call", "s": "s1", "data": "-", "rr": False}, {"a": "fire", "e": "e1"}]))
    # a deletion / redefinition / reload / unload landing while the managers of the preceding action are still
    # starting (@service is written above the triggers and its start awaits): a stopped manager starts nothing more
    sv = D(st=["a"], ev=["e1"], svc=["s1"])
    sv2 = D(st=["b"], ev=["e1"], svc=["s1"], resp="optional")
    after = [{"a": "fire", "e": "e1"}, {"a": "set", "x": "a"}, {"a": "call", "s": "s1", "data": "p=1", "rr": False},
             {"a": "unload"}]
    cell = {"a": "define", "c": "c3", "n": "f", "d": sv, "g": 1, "rush": True}
    load = {"a": "reload", "c": "c1", "defs": [{"n": "f", "d": sv}], "g": 1, "rush": True}
    for name, first, second in [] if not race else [
            ("cell-del", cell, {"a": "del", "c": "c3", "n": "f"}),
            ("cell-redef", cell, {"a": "define", "c": "c3", "n": "f", "d": sv2, "g": 2}),
            ("cell-close", cell, {"a": "close", "c": "c3"}),
            ("load-del", load, {"a": "del", "c": "c1", "n": "f"}),
            ("load-redef", load, {"a": "define", "c": "c1", "n": "f", "d": sv2, "g": 2}),
            ("load-reload", load, {"a": "reload", "c": "c1", "defs": [], "g": 2}),
            ("load-reload2", load, {"a": "reload", "c": "c1", "defs": [{"n": "f", "d": sv2}], "g": 2}),
            ("load-close", load, {"a": "close", "c": "c1"})]:
        w.append(("race-" + name, ["dm", "legacy"], [first, second] + after))
    if race:
        w.append(("race-load-unload", ["dm", "legacy"], [load, {"a": "unload"}]))
    w.append(("out", ["dm", "legacy"],
              [{"a": "out", "c": "c1", "form": f, "give": g} for g in OUT_GIVE for f in ("name", "call")]))
    both = ["dm", "legacy"]
    # a module (c4) is loaded by whoever imports it first - inside a running function, by a top-level statement of a
    # started context, by a Jupyter cell, or at the top of a file being loaded - and then lives on its own
    mod = [{"n": "f", "d": D(st=["a", "a.old"], ev=["e1"], tt=["startup"])}, {"n": "g", "d": D(svc=["s2"], resp="optional")}]
    occ = [{"a": "fire", "e": "e1"}, {"a": "set", "x": "a"}, {"a": "call", "s": "s2", "data": "p=1", "rr": True}]
    for c, via in (("c1", "run"), ("c2", "exec"), ("c3", "run")):
        w.append(("modimp-%s-%s" % (via, c), both, [
            {"a": "import", "c": c, "mdefs": mod, "via": via, "fail": False, "fresh": True, "g": 1}] + occ + [
            {"a": "import", "c": "c1", "mdefs": [], "via": "exec", "fail": False, "fresh": False, "g": 3},
            {"a": "reload", "c": "c1", "defs": [{"n": "h", "d": ev}], "g": 3}, {"a": "reload", "c": "c2", "defs": [], "g": 4},
            {"a": "fire", "e": "e1"}, {"a": "del", "c": "c4", "n": "f"}, {"a": "fire", "e": "e1"},
            {"a": "close", "c": "c4"}, {"a": "call", "s": "s2", "data": "-", "rr": True}, {"a": "unload"}]))
    w.append(("sessimp", both, [
        {"a": "import", "c": "c3", "mdefs": mod, "via": "exec", "fail": False, "fresh": True, "g": 1}] + occ))
    w.append(("loadimp", both, [
        {"a": "reload", "c": "c1", "defs": [{"n": "h", "d": s1}], "im": True, "mdefs": mod, "fresh": True, "g": 1}] + occ + [
        {"a": "reload", "c": "c1", "defs": [{"n": "h", "d": s1}], "g": 4}, {"a": "fire", "e": "e1"},
        {"a": "close", "c": "c1"}, {"a": "set", "x": "a"}, {"a": "call", "s": "s2", "data": "-", "rr": True},
        {"a": "define", "c": "c4", "n": "f", "d": ev, "g": 5}, {"a": "fire", "e": "e1"}, {"a": "set", "x": "a"},
        {"a": "unload"}]))
    # a file / module whose top level raises after some definitions: not loaded, nothing of it is active, the
    # names it declared are free for others
    broken = [{"n": "f", "d": D(ev=["e1"], svc=["s1"])}, {"n": "g", "d": D(st=["a"], tt=["startup"], svc=["s2"], resp="optional")}]
    after = [{"a": "call", "s": "s1", "data": "p=1", "rr": False}, {"a": "call", "s": "s2", "data": "-", "rr": True},
             {"a": "fire", "e": "e1"}, {"a": "set", "x": "a"}]
    w.append(("failload", both, [
        {"a": "define", "c": "c1", "n": "h", "d": D(ev=["e1"], svc=["s1"]), "g": 1},
        {"a": "reload", "c": "c1", "defs": broken, "fail": True, "g": 2}] + after + [
        {"a": "define", "c": "c2", "n": "f", "d": s1, "g": 4}, {"a": "call", "s": "s1", "data": "-", "rr": False},
        {"a": "reload", "c": "c2", "defs": [], "g": 5},
        {"a": "reload", "c": "c1", "defs": broken, "g": 5}] + after + [{"a": "unload"}]))
    w.append(("failapp", both, [
        {"a": "reload", "c": "c2", "defs": broken[:1], "g": 1}, {"a": "reload", "c": "c2", "defs": broken[1:], "fail": True, "g": 2}]
        + after + [{"a": "unload"}]))
    w.append(("failboot", both, [
        {"a": "boot", "d1": broken, "d2": [{"n": "h", "d": D(svc=["S3"], ev=["e1"])}], "f1": True, "f2": False, "g": 1}] + after + [
        {"a": "call", "s": "S3", "data": "-", "rr": False},
        {"a": "reload", "c": "c1", "defs": broken[:1], "g": 4}] + after + [{"a": "unload"}], False))
    w.append(("failimport", both, [
        {"a": "import", "c": "c1", "mdefs": broken, "via": "run", "fail": True, "fresh": True, "g": 1}] + after + [
        {"a": "import", "c": "c2", "mdefs": broken[:1], "via": "exec", "fail": True, "fresh": True, "g": 3}] + after[:1] + [
        {"a": "import", "c": "c1", "mdefs": broken, "via": "exec", "fail": False, "fresh": True, "g": 4}] + after + [{"a": "unload"}]))
    # a service name with an upper-case letter: redefinition (register before remove), aliases, a move to another context
    up, up2 = D(svc=["S3"]), D(svc=["S3", "s1"], ev=["e1"], resp="optional")
    callS = {"a": "call", "s": "S3", "data": "p=1", "rr": False}
    w.append(("case-redef", both, [
        {"a": "define", "c": "c1", "n": "f", "d": up, "g": 1}, callS, {"a": "define", "c": "c1", "n": "f", "d": up, "g": 2}, callS,
        {"a": "define", "c": "c1", "n": "f", "d": up2, "g": 3}, {"a": "call", "s": "S3", "data": "-", "rr": True},
        {"a": "del", "c": "c1", "n": "f"}, callS, {"a": "define", "c": "c3", "n": "g", "d": up, "g": 4}, callS, {"a": "unload"}]))
    w.append(("case-move", both, [
        {"a": "reload", "c": "c1", "defs": [{"n": "f", "d": up}], "g": 1}, callS,
        {"a": "define", "c": "c2", "n": "g", "d": up, "g": 2}, callS,
        {"a": "reload", "c": "c1", "defs": [], "g": 3}, callS, {"a": "define", "c": "c2", "n": "g", "d": up, "g": 3}, callS,
        {"a": "close", "c": "c2"}, {"a": "push", "c": "c1", "d": up2, "where": "L", "via": "exec", "g": 4},
        {"a": "call", "s": "S3", "data": "-", "rr": True}, {"a": "unload"}]))
    # one name spelled in two ways by two live declarations (HA folds service names): deletion, redefinition, take-over
    low, cap = D(svc=["s1"]), D(svc=["s1"], alt=True)
    call1 = {"a": "call", "s": "s1", "data": "p=1", "rr": False}
    w.append(("spell-del", both, [{"a": "define", "c": "c1", "n": "f", "d": low, "g": 1}, {"a": "define", "c": "c1", "n": "g", "d": cap, "g": 2},
                                  call1, {"a": "del", "c": "c1", "n": "g"}, call1]))
    w.append(("spell-redef", both, [{"a": "define", "c": "c1", "n": "f", "d": low, "g": 1}, {"a": "define", "c": "c1", "n": "f", "d": cap, "g": 2},
                                    call1]))
    w.append(("spell-takeover", both, [{"a": "define", "c": "c1", "n": "f", "d": low, "g": 1},
                                       {"a": "define", "c": "c2", "n": "g", "d": cap, "g": 2}, call1]))
    # (a name that is only ever spelled the other way is nothing special)
    w.append(("spell-alone", both, [{"a": "define", "c": "c1", "n": "f", "d": cap, "g": 1}, call1,
                                    {"a": "define", "c": "c1", "n": "f", "d": cap, "g": 2}, call1,
                                    {"a": "define", "c": "c2", "n": "g", "d": cap, "g": 3}, {"a": "del", "c": "c1", "n": "f"}, call1,
                                    {"a": "unload"}]))
    # the statement that takes the last reference away, followed BY THE SAME SCRIPT - no yield to the event loop - by
    # an occurrence the function was waiting for: "after which no occurrence runs the old function".  victims: the
    # run the occurrence must NOT cause (used by the corruption self-test)
    e1, e1s1, sa = D(ev=["e1"]), D(ev=["e1"], svc=["s1"]), D(st=["a"])
    fire, seta = {"a": "fire", "e": "e1"}, {"a": "set", "x": "a"}
    calls1 = {"a": "call", "s": "s1", "data": "p=1", "rr": False}
    tick = {}
    for tv in ("exec", "run"):
        T = {"tick": True, "tvia": tv}
        tick["del-fire-" + tv] = ([
            {"a": "define", "c": "c1", "n": "f", "d": e1, "g": 1}, {"a": "define", "c": "c1", "n": "g", "d": e1, "g": 2},
            dict({"a": "del", "c": "c1", "n": "f"}, **T), fire, fire, {"a": "unload"}], [(3, victim_run(fire, 1))])
        tick["del-call-" + tv] = ([
            {"a": "define", "c": "c2", "n": "f", "d": e1s1, "g": 1}, calls1, dict({"a": "del", "c": "c2", "n": "f"}, **T), calls1,
            calls1, fire], [(3, victim_run(calls1, 1))])
        tick["del-set-" + tv] = ([
            {"a": "define", "c": "c1", "n": "f", "d": sa, "g": 1}, {"a": "define", "c": "c1", "n": "g", "d": D(st=["a", "b"]), "g": 2},
            dict({"a": "del", "c": "c1", "n": "f"}, **T), seta, seta], [(3, victim_run(seta, 1))])
        # a closure kept in the dict slot / the list
        tick["clearD-fire-" + tv] = ([
            {"a": "push", "c": "c1", "d": e1, "where": "D", "via": "exec", "g": 1},
            {"a": "push", "c": "c1", "d": e1, "where": "L", "via": "exec", "g": 2},
            dict({"a": "clear", "c": "c1", "where": "D"}, **T), fire, dict({"a": "pop", "c": "c1"}, **T), fire, fire],
            [(3, victim_run(fire, 1)), (5, victim_run(fire, 2))])
        tick["session-del-fire-" + tv] = ([
            {"a": "define", "c": "c3", "n": "f", "d": D(ev=["e1"], st=["a"], svc=["s2"]), "g": 1},
            dict({"a": "del", "c": "c3", "n": "f"}, **T), fire, seta, {"a": "call", "s": "s2", "data": "-", "rr": False}],
            [(2, victim_run(fire, 1))])
        # overwriting the last reference: rebinding the name to another function
        tick["rebind-fire-" + tv] = ([
            {"a": "define", "c": "c1", "n": "f", "d": e1, "g": 1}, {"a": "define", "c": "c1", "n": "g", "d": D(ev=["e2"]), "g": 2},
            dict({"a": "rebind", "c": "c1", "n": "f", "m": "g"}, **T), fire, {"a": "fire", "e": "e2"}, fire], [(3, victim_run(fire, 1))])
        # the shutdown trigger of the deleted function runs (once), the function itself does not
        tick["del-shutdown-" + tv] = ([
            {"a": "define", "c": "c1", "n": "f", "d": D(ev=["e1"], tt=["shutdown", "startup"]), "g": 1},
            dict({"a": "del", "c": "c1", "n": "f"}, **T), fire, fire, {"a": "unload"}], [(2, victim_run(fire, 1))])
    # redefinition / a store over the dict slot: the old function never runs; whether the new one already reacts is
    # not specified
    tick["redef-fire"] = ([
        {"a": "define", "c": "c1", "n": "f", "d": e1, "g": 1},
        {"a": "define", "c": "c1", "n": "f", "d": D(ev=["e1"], st=["b"], svc=["s2"]), "g": 2, "tick": True}, fire, fire],
        [(2, victim_run(fire, 1))])
    tick["redef-call"] = ([
        {"a": "define", "c": "c1", "n": "f", "d": e1s1, "g": 1},
        {"a": "define", "c": "c1", "n": "f", "d": D(ev=["e1"], svc=["s2"]), "g": 2, "tick": True}, calls1, calls1, fire],
        [(2, victim_run(calls1, 1))])
    for tv in ("exec", "run"):
        tick["storeD-fire-" + tv] = ([
            {"a": "push", "c": "c2", "d": e1, "where": "D", "via": "exec", "g": 1},
            {"a": "push", "c": "c2", "d": D(ev=["e1"], st=["c"]), "where": "D", "via": tv, "g": 2, "tick": True}, fire, fire],
            [(2, victim_run(fire, 1))])
    cases = []
    for name, (acts, victims) in tick.items():
        if tick_all or any(a["a"] == "call" for a in acts):        # (C12: the ones that call a service)
            w.append(("tick-" + name, both, acts, True, [{"step": i, "run": v} for i, v in victims]))
    # ONE function declaring a service name twice (a declaration is a multiset of names): @service("a.b", "a.b") /
    # two stacked @service("a.b"): every entry is registered and counted, all of them go with the function
    dupa = D(svc=["s1"], sf="args", dup=["s1"])
    dups = D(svc=["s1", "s2"], ev=["e1"], resp="optional", dup=["s2"])
    one = D(svc=["s1"])
    calls2 = {"a": "call", "s": "s2", "data": "p=1", "rr": True}
    w.append(("dup-del", both, [
        {"a": "define", "c": "c1", "n": "f", "d": dupa, "g": 1}, calls1, {"a": "del", "c": "c1", "n": "f"}, calls1,
        {"a": "define", "c": "c2", "n": "g", "d": one, "g": 2}, calls1, {"a": "unload"}]))
    w.append(("dup-redef", both, [
        {"a": "define", "c": "c1", "n": "f", "d": dups, "g": 1}, calls2, {"a": "define", "c": "c1", "n": "f", "d": e1, "g": 2},
        calls2, calls1, {"a": "define", "c": "c3", "n": "h", "d": dups, "g": 3}, calls2, {"a": "close", "c": "c3"}, calls2]))
    w.append(("dup-reload", both, [
        {"a": "reload", "c": "c1", "defs": [{"n": "f", "d": dupa}, {"n": "g", "d": D(svc=["s2"], dup=["s2"])}], "g": 1}, calls1,
        {"a": "reload", "c": "c1", "defs": [{"n": "f", "d": one}], "g": 3}, calls1, {"a": "call", "s": "s2", "data": "-", "rr": False},
        {"a": "reload", "c": "c1", "defs": [], "g": 4}, calls1]))
    w.append(("dup-two", both, [
        {"a": "define", "c": "c1", "n": "f", "d": dupa, "g": 1}, {"a": "define", "c": "c1", "n": "g", "d": one, "g": 2}, calls1,
        {"a": "del", "c": "c1", "n": "g"}, calls1, {"a": "push", "c": "c1", "d": dupa, "where": "D", "via": "exec", "g": 3}, calls1,
        {"a": "del", "c": "c1", "n": "f"}, calls1, {"a": "clear", "c": "c1", "where": "D"}, calls1]))
    for name, subs, acts, *opt in w:
        for sub in subs:
            cases.append({"id": "w/%s/%s" % (name, sub), "sub": sub, "started": opt[0] if opt else True,
                          "ctxs": ["c1", "c2", "c3"], "steps": [{"act": dict(a)} for a in acts], "witness": True})
            if len(opt) > 1:
                cases[-1]["victims"] = opt[1]
    # consecutive positions go to consecutive workers (hash seeds 0..3 in turn): keep the four copies of the
    # hash-seed dependent witness adjacent per subsystem so that each subsystem meets every seed
    nd = [c for c in cases if "/notifydel" in c["id"]]
    rest = [c for c in cases if "/notifydel" not in c["id"]]
    return [c for c in nd if c["sub"] == "dm"] + [c for c in nd if c["sub"] == "legacy"] + rest


# ------------------------------------------------------------------------------------------------
# (M) exhaustive model checking: configurations
ACTS_ALL = "{%s}" % ", ".join('"%s"' % a for a in ALL_ACTS)


def acts(*names):
    return "{%s}" % ", ".join('"%s"' % a for a in names)


def mc_cfg(path, consts, invariants=(), properties=(), constraint=None):
    c = {"MaxGen": 4, "MaxSteps": 6, "Ctx": '{"c1"}', "Name": '{"f", "g"}', "FlagSets": "{{}}", "SubSet": '{"dm"}',
         "StartedSet": "{TRUE}", "Eager": "TRUE", "DeclSet": "{1}", "MaxDefs": 1, "Vias": '{"exec"}', "Rush": "FALSE", "Acts": ACTS_ALL}
    c.update(consts)
    lines = ["SPECIFICATION Spec", "CONSTANTS"]
    for k, v in c.items():
        v = str(v)
        lines.append(" %s %s %s" % (k, "<-" if v[:1].isalpha() and v not in ("TRUE", "FALSE") else "=", v))
    lines.append("VIEW View")
    lines += ["INVARIANT %s" % i for i in invariants]
    lines += ["PROPERTY %s" % p for p in properties]
    if constraint:
        lines.append("CONSTRAINT %s" % constraint)
    lines.append("CHECK_DEADLOCK FALSE")
    with open(path, "w") as f:
        f.write("\n".join(lines) + "\n")
    return path


INV_C09 = ["ActiveIffReferencedAndLoaded", "TablesEqualUnionOfActive", "AfterUnloadBaseline", "StartupOncePerDefine",
           "ShutdownOncePerRemoval"]
PROP_C09 = ["NoRunOfDeadGeneration"]
INV_C12 = ["RegisteredIffCounted", "CountIsLiveDeclarations", "HandlerIsLatestLiveDeclaration", "NoTakeoverAcrossContexts"]
PROP_C12 = ["RefusedLeavesRegistry", "CallDeliversDataAndTriggerType", "ResponseReturnedWhenSupported",
            "OutgoingCallDeliversGivenKeywords"]
ALL_INV = INV_C09 + INV_C12
ALL_PROP = PROP_C09 + PROP_C12


def run_mc(ctx, label, consts, invariants, properties, expect=None, workers=3, timeout=1500):
    """expect: None (must hold) or a set of invariant/property names one of which must be violated."""
    cfg = mc_cfg(os.path.join(ctx.scratch, "Lifecycle_%s.cfg" % label), consts, invariants, properties)
    res = tlc.run("Lifecycle", cfg, ctx.scratch, workers=workers, timeout=timeout)
    return label, res, expect


def mc_report(ctx, results):
    nflag = nwit = 0
    for label, res, expect in results:
        ctx.add_tlc(res, "Lifecycle:" + label)
        if expect is None:
            if not res.ok:
                ctx.report({"clause": "model:" + res.violated, "config": label},
                           "Lifecycle.tla (flags = {}) violates %s in configuration %s" % (res.violated, label),
                           {"cex": res.cex})
        else:
            if res.ok or res.violated not in expect:
                raise MachineryFailure("configuration %s: expected a violation of %s, got %s" % (label, sorted(expect), res.violated))
            if label.startswith("W_"):
                nwit += 1
            else:
                nflag += 1
                ctx.cov.setdefault("deviation_flags_violate", {})[label] = res.violated
    ctx.cov["witnesses_violated_as_expected"] = nwit
    ctx.cov["flag_configurations_violated_as_expected"] = nflag


# ------------------------------------------------------------------------------------------------
# the common driver
def case_key(c):
    return json.dumps([c["sub"], c["started"], [s["act"] for s in c["steps"]]], sort_keys=True)


def observed(c):
    """The steps that carry an observation (not the "rush" steps)."""
    return [s for s in c["steps"] if "runs" in s["obs"]]


def nontrivial(c):
    """At least one function ran and at least one table changed during the recording."""
    ran = any(s["obs"]["runs"] for s in observed(c))
    tabs = {json.dumps({k: s["obs"][k] for k in ("cnt", "sub", "evq", "tm", "act")}, sort_keys=True) for s in observed(c)}
    return ran and len(tabs) > 1


SELFTEST_FIRST = ["w/tick-del-call-run/dm", "w/tick-del-call-exec/legacy", "w/tick-clearD-fire-run/legacy", "w/dup-del/legacy", "w/dup-two/dm",
                  "w/out/dm", "w/modimp-run-c1/dm", "w/loadimp/legacy", "w/failload/legacy", "w/failimport/dm", "w/case-redef/dm",
                  "w/case-move/legacy", "w/failboot/dm"]


def selftest_rank(c):
    return SELFTEST_FIRST.index(c["id"]) if c["id"] in SELFTEST_FIRST else len(SELFTEST_FIRST)


def main_common(ctx, prop, mc_jobs, sim_consts, pool, sizes):
    """mc_jobs: list of (label, consts, invariants, properties, expect); sim_consts: constants of the simulated
    behaviours (R); pool: declaration pool of the random generator (T); sizes: dict of volumes."""
    from harness.common import parallel
    global DECL_POOL
    DECL_POOL = pool
    allctx = ["c1", "c2", "c3"]
    if ctx.replay:
        rp = json.load(open(ctx.replay))
        c = rp["case"]["case"]
        case = {"id": c["id"], "sub": c["sub"], "started": c["started"], "ctxs": c["ctxs"],
                "steps": [{"act": a} for a in c["acts"]]}
        done = execute(ctx, [case], nproc=1)
        validate(ctx, done, "replay")
        return
    masked_consts = dict(sim_consts)
    masked_consts.update({"DeclSet": sim_consts.get("DeclSet_masked", "MaskedDecls"), "MaxDefs": 1, "Vias": '{"exec"}'})
    masked_consts.pop("DeclSet_masked", None)
    sim_u = {k: v for k, v in sim_consts.items() if k != "DeclSet_masked"}

    def sim(label, consts, num, seed, constraint=None):
        cfg_consts = dict(consts)
        cfg = sim_cfg(os.path.join(ctx.scratch, "Lifecycle_sim_%s.cfg" % label), cfg_consts,
                      extra=("CONSTRAINT %s\n" % constraint) if constraint else "")
        files = tlc.simulate("Lifecycle", cfg, ctx.scratch, num, sizes["depth"], seed,
                             outdir=os.path.join(ctx.scratch, "sim_%s" % label), timeout=3000)
        out = []
        for f in files:
            states = tlc.parse_trace_file(f)
            if constraint:        # the simulator may emit the state that violates the constraint: cut there
                for i, st in enumerate(states):
                    la = unset(st["lastAct"])
                    if any(v > 1 for v in st["cnt"].values()) or (
                            la["a"] == "import" and la["c"] == "c3" and la["via"] == "exec" and la["fresh"]):
                        states = states[:i]
                        break
            a = [unset(s["lastAct"]) for s in states[1:]]
            if a:
                out.append({"started": bool(states[0]["started"]), "acts": a})
        return out

    if os.environ.get("VERIF_SKIP_MC"):      # mutant / fix trials: the model is unchanged, only the binding is exercised
        mc_jobs = []
    thunks = [(lambda j=j: run_mc(ctx, *j)) for j in mc_jobs]
    nsplit = sizes.get("simsplit", 3)        # several simulators side by side (different seeds)
    if os.environ.get("VERIF_SKIP_SIM"):      # mutant / fix trials: witnesses and random sequences only
        nsplit = 0
    per = (sizes["sim"] + nsplit - 1) // nsplit if nsplit else 0
    for k in range(nsplit):
        thunks.append(lambda k=k: sim("u%d" % k, sim_u, per, ctx.seed * 100 + 11 + k))
        thunks.append(lambda k=k: sim("m%d" % k, masked_consts, per, ctx.seed * 100 + 51 + k, constraint="Masked"))
    outs = parallel(thunks, max_workers=min(8, int(os.environ.get("VERIF_DEV_NPROC", "64")))) if thunks else []
    mc_report(ctx, outs[:len(mc_jobs)])
    sims = outs[len(mc_jobs):]
    beh_u = [b for o in sims[0::2] for b in o]
    beh_m = [b for o in sims[1::2] for b in o]
    if nsplit and (len(beh_u) < sizes["sim"] // 2 or len(beh_m) < sizes["sim"] // 2):
        raise MachineryFailure("simulation produced too few behaviours (%d, %d)" % (len(beh_u), len(beh_m)))
    if os.environ.get("VERIF_RND"):           # smaller volume for mutant / fix trials
        sizes = dict(sizes, rnd=int(os.environ["VERIF_RND"]))
    # (T) random longer sequences
    rnd_u = [gen_random_case(ctx.seed * 100000 + i, sizes["steps"], allctx, set()) for i in range(sizes["rnd"])]
    rnd_m = [gen_random_case(ctx.seed * 100000 + 50000 + i, sizes["steps"], allctx, set(ALL_FLAGS)) for i in range(sizes["rnd"])]
    cases = witnesses(race=sizes.get("race", 0) > 0, tick_all=sizes.get("tick", 0) > 0)
    cases += to_cases([gen_race(random.Random(ctx.seed * 1000 + 77 + i)) for i in range(sizes.get("race", 0))], allctx, "X/u")
    cases += to_cases([gen_tick(random.Random(ctx.seed * 1000 + 177 + i)) for i in range(sizes.get("tick", 0))], allctx, "X/t")
    cases += to_cases(beh_u, allctx, "R/u")
    cases += to_cases(rnd_u, allctx, "T/u")
    masked = to_cases(beh_m, allctx, "R/m") + to_cases(rnd_m, allctx, "T/m")
    for c in masked:
        c["masked"] = True
    cases += masked
    t_gen = time.time()
    done = execute(ctx, cases)
    t_exec = time.time()
    byid = {c["id"]: c for c in done}
    accepted, rejections = validate(
        ctx, done, "main",
        beside=lambda acc: selftest(ctx, sorted([byid[i] for i in acc if len(byid[i]["steps"]) >= 4], key=selftest_rank)[:19]))
    acc_cases = [byid[i] for i in accepted]
    # (under a code mutant the directed recordings may all be rejected: those are reported, not a machinery failure)
    if not [r for r in rejections if not r["flags"]] and ctx.cov.get("selftest_corruption_kinds_of_round3") != ["case", "dup", "fail", "import", "tick"]:
        raise MachineryFailure("selftest: no accepted recording with a module import / failed load / upper-case service name / "
                               "occurrence right behind a deleting statement / name declared twice by one function was corrupted (have %s)" % ctx.cov.get("selftest_corruption_kinds_of_round3"))
    ctx.cov["phase_wall_s"] = {"model_checking_and_simulation": round(t_gen - ctx.t0, 1), "execution_on_real_code": round(t_exec - t_gen, 1),
                               "trace_validation": round(time.time() - t_exec, 1)}
    # coverage
    um = [c for c in done if not c.get("masked")]
    mm = [c for c in done if c.get("masked")]
    rej_ids = {r["case"]["id"] for r in rejections}
    ctx.cov["replayed_behaviours"] = len([c for c in done if c["id"].startswith("R/")])
    ctx.cov["random_sequences"] = len([c for c in done if c["id"].startswith("T/")])
    ctx.cov["witness_recordings"] = len([c for c in done if c["id"].startswith("w/")])
    ctx.cov["evaluations"] = sum(len(observed(c)) for c in done)
    ctx.cov["rushed_pairs"] = sum(1 for c in done for s in c["steps"] if s["act"].get("rush"))
    ctx.cov["occurrences_right_behind_a_statement"] = {}
    for c in done:
        for s, nx in zip(c["steps"], c["steps"][1:]):
            if s["act"].get("tick"):
                key = "%s(%s)+%s/%s" % (s["act"]["a"], "exec" if s["act"]["a"] == "define" else s["act"].get("via" if s["act"]["a"] == "push" else "tvia", "exec"), nx["act"]["a"], c["sub"])
                ctx.cov["occurrences_right_behind_a_statement"][key] = ctx.cov["occurrences_right_behind_a_statement"].get(key, 0) + 1
    ctx.cov["distinct_nontrivial"] = len({case_key(c) for c in done if nontrivial(c)})
    ctx.cov["rule"] = ("one case = one action sequence (TLC-simulated behaviour of Lifecycle.tla, random longer sequence, or "
                       "directed witness) executed on the real integration in one subsystem (dm / legacy) with an observation "
                       "(run log, service registry, subscriptions per entity, bus listeners, timers, managers, baseline after "
                       "unload) compared by TLC after every step; evaluations = steps compared; non-trivial = at least one "
                       "function ran and the tables changed; distinct by (subsystem, action sequence)")
    ctx.cov["unmasked_cases"] = len(um)
    ctx.cov["unmasked_rejections"] = len([c for c in um if c["id"] in rej_ids])
    ctx.cov["masked_cases"] = len(mm)
    ctx.cov["masked_rejections"] = len([c for c in mm if c["id"] in rej_ids])
    ctx.cov["steps_by_action"] = {}
    for c in done:
        for s in c["steps"]:
            k = s["act"]["a"]
            ctx.cov["steps_by_action"][k] = ctx.cov["steps_by_action"].get(k, 0) + 1
    ctx.cov["runs_observed"] = sum(len(s["obs"]["runs"]) for c in done for s in observed(c))
    ctx.cov["hash_seeds"] = [0, 1, 2, 3]
    # reference cycles that only the cyclic collector breaks: reported separately
    ctx.cov["steps_whose_tables_changed_only_after_gc_collect"] = sum(c.get("gcdep", 0) for c in done)
    smp = [c for c in done if c.get("gcdep_sample")]
    if smp:
        ctx.cov["gc_dependent_sample"] = smp[0]["gcdep_sample"]
    expl = {}
    for r in rejections:
        k = "+".join(r["flags"]) if r["flags"] else "unexplained"
        expl[k] = expl.get(k, 0) + 1
    ctx.cov["rejections_by_explaining_deviations"] = expl
    for c in [c for c in acc_cases if len(c["steps"]) >= 5][:2]:
        ctx.sample({"id": c["id"], "steps": [{"act": s["act"], "runs": s["obs"]["runs"], "cnt": s["obs"]["cnt"],
                                               "sub": s["obs"]["sub"]} for s in observed(c)[:8]]})
    ctx.assumptions += [
        "the code is sampled at quiescence (settle + 10 ms of virtual time + gc.collect()) and - tick pairs - by an occurrence "
        "the same script produces right behind a structural statement, before it yields to the event loop; occurrences "
        "from OTHER tasks between a deletion and the next loop iteration are explored in the model only (Eager = FALSE)",
        "whether a function created by a statement already reacts to an occurrence produced right behind that statement is "
        "not specified (the model allows both); a call right behind the statement is made without response and not of a "
        "service name the new definition declares",
        "state trigger expressions are always true (or any-change names): every change of a watched entity runs the function; "
        "expression truth is C04's business",
        "cross-context service conflicts are generated only for declarations with one service; while HA is starting no "
        "cross-context overlap is generated; a plain call of a response-only service is not generated; a definition "
        "overwritten during a file load carries no shutdown trigger (the statement is silent on these)",
        "the integration's own services (pyscript.reload, jupyter_kernel_start, generate_stubs) stay registered after "
        "unload; they are not registrations of decorated functions and are excluded from the baseline comparison",
    ]
