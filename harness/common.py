"""Shared check scaffolding: context, worker pool, known findings, evidence, exit protocol."""
import hashlib
import json
import os
import shutil
import subprocess
import sys
import tempfile
import time

VERIF = os.path.dirname(os.path.dirname(os.path.abspath(__file__)))
PY = "/venv/bin/python"
FINDINGS_FILE = os.path.join(VERIF, "known_findings.jsonl")


class MachineryFailure(Exception):
    """The checking machinery itself failed (exit 2); never reported as a VIOLATION."""


class Ctx:
    def __init__(self, prop, tier, seed, replay=None):
        self.prop = prop
        self.tier = tier
        self.seed = seed
        self.replay = replay
        self.scratch = tempfile.mkdtemp(prefix="vf_%s_" % prop, dir=os.environ.get("VERIF_SCRATCH_ROOT", "/tmp"))
        self.t0 = time.time()
        self.violations = []      # dicts: {"sig": {...}, "what": str, "case": {...}}
        self.known_hits = {}      # finding index -> count
        self.cov = {"states": 0, "transitions": 0, "traces_validated_against_impl": 0, "samples": []}
        self.assumptions = []
        self.findings = load_findings(prop)
        self.notes = []

    @property
    def quick(self):
        return self.tier == "quick"

    def pick(self, quick, thorough):
        return quick if self.quick else thorough

    def add_tlc(self, res, label=None):
        self.cov["states"] += res.distinct
        self.cov["transitions"] += res.generated
        if label:
            self.cov.setdefault("tlc_runs", []).append(
                {"run": label, "distinct": res.distinct, "generated": res.generated, "depth": res.depth,
                 "wall_s": round(res.wall, 1)})

    def sample(self, x, cap=4):
        if len(self.cov["samples"]) < cap:
            self.cov["samples"].append(x)

    def report(self, sig, what, case):
        """Report one rejection: a known finding (matched by signature) or a violation."""
        masked_space = bool(sig.get("masked")) or sig.get("space") == "masked"     # the masked space must be clean
        for i, f in enumerate(self.findings):
            if f.get("status") != "known" or masked_space:
                continue
            if all(sig.get(k) == v for k, v in f["signature"].items()):
                self.known_hits[i] = self.known_hits.get(i, 0) + 1
                return "known"
        self.violations.append({"sig": sig, "what": what, "case": case})
        return "violation"

    def cleanup(self):
        shutil.rmtree(self.scratch, ignore_errors=True)


def load_findings(prop):
    out = []
    if os.path.exists(FINDINGS_FILE):
        for line in open(FINDINGS_FILE):
            line = line.strip()
            if not line or line.startswith("#"):
                continue
            f = json.loads(line)
            if f.get("property") == prop:
                out.append(f)
    return out


def finish(ctx, level="model_checking", extra_cov=None):
    """Print verdict lines, write replay files and the evidence file; return the exit code."""
    prop = ctx.prop
    cov = dict(ctx.cov)
    if extra_cov:
        cov.update(extra_cov)
    # known findings
    kf = []
    for i, n in sorted(ctx.known_hits.items()):
        f = ctx.findings[i]
        print("KNOWN-FINDING: property=%s %s (hits=%d)" % (prop, f["what"], n))
        kf.append({"what": f["what"], "signature": f["signature"], "hits": n})
    for i, f in enumerate(ctx.findings):
        if f.get("status") == "known" and i not in ctx.known_hits:
            print("STALE-FINDING: property=%s %s (not reproduced in this run)" % (prop, f["what"]))
    cov["known_findings_hit"] = kf
    # violations: group by signature, write one replay per signature (smallest case)
    groups = {}
    for v in ctx.violations:
        key = json.dumps(v["sig"], sort_keys=True)
        groups.setdefault(key, []).append(v)
    rdir = os.path.join(VERIF, "replays", prop)
    nviol = 0
    for key, vs in sorted(groups.items()):
        vs.sort(key=lambda v: len(json.dumps(v["case"], default=str)))
        v = vs[0]
        os.makedirs(rdir, exist_ok=True)
        h = hashlib.sha1(key.encode()).hexdigest()[:12]
        path = os.path.join(rdir, "%s.json" % h)
        with open(path, "w") as f:
            json.dump({"property": prop, "signature": v["sig"], "what": v["what"], "count": len(vs),
                       "case": v["case"]}, f, indent=1, default=str)
        print("VIOLATION property=%s replay=%s   # %s (%d cases)" % (prop, path, v["what"], len(vs)))
        nviol += 1
    cov["violation_signatures"] = [json.loads(k) for k in sorted(groups)]
    if not cov.get("samples"):
        cov["samples"] = ["(no sample recorded)"]
    ev = {
        "property_id": prop, "tier": ctx.tier, "seed": ctx.seed, "level": level,
        "coverage": cov, "assumptions": ctx.assumptions, "wall_s": round(time.time() - ctx.t0, 1),
        "violations": nviol,
    }
    if not ctx.replay and not os.environ.get("PYSCRIPT_SRC"):     # evidence is about /repo only, never about a mutant copy
        os.makedirs(os.path.join(VERIF, "evidence"), exist_ok=True)
        with open(os.path.join(VERIF, "evidence", "%s.json" % prop), "w") as f:
            json.dump(ev, f, indent=1, default=str)
    print("%s %s: states=%d transitions=%d traces=%d known=%d violations=%d wall=%.1fs" % (
        prop, ctx.tier, cov.get("states", 0), cov.get("transitions", 0),
        cov.get("traces_validated_against_impl", 0), len(kf), nviol, time.time() - ctx.t0))
    return 1 if nviol else 0


# ------------------------------------------------------------------------------------------------
# worker pool: subprocesses (so PYTHONHASHSEED can vary and pyscript's class-level state is isolated)
def run_workers(module, func, jobs, scratch, nproc=16, hashseeds=(0, 1, 2, 3), timeout=7200, py=PY):
    """jobs: list of JSON-able job descriptions.  Each job is handled by `module.func(job)` in a
    subprocess; jobs are distributed round-robin over nproc processes.  Returns list of results in
    job order."""
    if not jobs:
        return []
    nproc = max(1, min(nproc, len(jobs)))
    chunks = [[] for _ in range(nproc)]
    for i, j in enumerate(jobs):
        chunks[i % nproc].append((i, j))
    procs = []
    for k, ch in enumerate(chunks):
        inp = os.path.join(scratch, "job_%s_%d_%d.in.json" % (func, os.getpid(), k))
        outp = inp.replace(".in.json", ".out.json")
        with open(inp, "w") as f:
            json.dump([j for _, j in ch], f)
        env = dict(os.environ)
        env["PYTHONHASHSEED"] = str(hashseeds[k % len(hashseeds)])
        env["PYTHONPATH"] = VERIF + os.pathsep + os.path.join(VERIF, "harness") + os.pathsep + env.get("PYTHONPATH", "")
        env["PYSCRIPT_VERIF"] = "1"
        p = subprocess.Popen([py, "-m", "harness.worker", module, func, inp, outp], cwd=VERIF, env=env,
                             stdout=subprocess.PIPE, stderr=subprocess.PIPE, text=True)
        procs.append((p, ch, inp, outp))
    results = [None] * len(jobs)
    deadline = time.time() + timeout
    for p, ch, inp, outp in procs:
        try:
            so, se = p.communicate(timeout=max(1, deadline - time.time()))
        except subprocess.TimeoutExpired:
            p.kill()
            raise MachineryFailure("worker timeout in %s.%s" % (module, func))
        if p.returncode != 0 or not os.path.exists(outp):
            raise MachineryFailure("worker %s.%s failed (rc=%s):\n%s\n%s" % (module, func, p.returncode, so[-3000:], se[-6000:]))
        rs = json.load(open(outp))
        for (i, _), r in zip(ch, rs):
            results[i] = r
        os.unlink(inp)
        os.unlink(outp)
    return results


def main_wrapper(prop, driver_main, argv):
    """Entry used by checks/run: parse args, run the driver, emit verdicts."""
    import argparse
    ap = argparse.ArgumentParser()
    ap.add_argument("--tier", default=os.environ.get("VERIF_TIER", "quick"))
    ap.add_argument("--replay", default=None)
    ap.add_argument("--seed", type=int, default=int(os.environ.get("VERIF_SEED", "0") or 0))
    a = ap.parse_args(argv)
    ctx = Ctx(prop, a.tier if a.tier in ("quick", "thorough") else "quick", a.seed, a.replay)
    try:
        level = driver_main(ctx) or "model_checking"
        rc = finish(ctx, level if isinstance(level, str) else "model_checking")
    except MachineryFailure as e:
        print("MACHINERY-FAILURE property=%s %s" % (prop, e), file=sys.stderr)
        rc = 2
    except Exception as e:  # TLCError and anything unexpected
        import traceback
        traceback.print_exc()
        print("MACHINERY-FAILURE property=%s %r" % (prop, e), file=sys.stderr)
        rc = 2
    finally:
        ctx.cleanup()
    return rc


def parallel(thunks, max_workers=8):
    """Run callables concurrently in threads (they spawn subprocesses); returns results in order,
    re-raising the first exception."""
    from concurrent.futures import ThreadPoolExecutor
    with ThreadPoolExecutor(max_workers=max_workers) as ex:
        futs = [ex.submit(t) for t in thunks]
        return [f.result() for f in futs]
